"""C14 - lexing tiles the input and decodes literals exactly.

spec/Lex.tla is the reference: the Jsonnet lexical grammar as a tokenizer `Lex(bytes)`
(operators with the maximal-munch restrictions, identifiers/keywords, JSON numbers with `_`,
quoted / verbatim strings, text blocks with ||| and |||-, comments, whitespace, UTF-8 with
maximal-subpart replacement) and, independently, a generator/printer of token items with the
value the grammar assigns. TLC (spec/MC_Lex.tla, one cfg per universe) enumerates

  ops / nums / mixed  every byte string up to a length over three alphabets
  items1/2/3          sequences of 1, 2, 3 token items (every literal form, separators)
  frag / tbfrag       quoted strings and text blocks assembled from (also malformed) fragments
  utf8                every UTF-8 prefix class inside " ' @" @' ||| |||- // # /* */
  scalar              every Unicode scalar value (law only)

checks the laws on the specification (expected spans tile the input; print-then-tokenize gives
the generator's tokens; trivia do not change the other tokens; canonical reprint keeps kinds and
values; Utf8Lossy laws) and emits one case per input. Every case is lexed by the real
`Lexer::lex_to_eof(true/false)` (harness case kind "lex") and compared token by token.

Arbitrary bytes (random, lexical soup, the ui-tests corpus, its truncations and mutations) are
checked against the tiling condition of spec/Trace_Lex.tla: by TLC on a sample of the recorded
token streams and by the same condition in Python on all of them."""
import glob
import hashlib
import json
import multiprocessing
import os
import shutil
from concurrent.futures import ThreadPoolExecutor

import vlib
import lex_util as lu
from vlib import Check, run_tlc, tlc_must_pass, run_cases

PROP = "C14"
BATCH = 100_000
MAX_PER_SIG = 2

# (cfg name, what it is)
QUICK = ["ops_quick", "nums_quick", "mixed_quick", "items1_quick", "items2_quick", "items3",
         "frag_quick", "tbfrag_quick", "utf8", "scalar_quick"]
THOROUGH = ["ops", "nums", "mixed", "items1", "items2", "items3", "frag", "tbfrag", "utf8", "scalar"]


NPROC = 6


class Acc:
    """What one batch (in a pool worker) or the whole run (in the main process) observed."""

    def __init__(self):
        self.n = 0
        self.digests = []          # blake2b-8 of (universe, bytes) of the non-trivial inputs
        self.outside = 0
        self.by_sig = {}
        self.dis = []              # (sig, what, payload), at most MAX_PER_SIG per sig
        self.outcomes = {}
        self.tokkinds = {}
        self.py_codec_checked = 0
        self.samples = []
        self.sampled = []          # volume: harness results for Trace_Lex
        self.rejected = []         # volume: harness results the Python evaluator rejected

    def outcome(self, universe, what):
        d = self.outcomes.setdefault(universe, {})
        d[what] = d.get(what, 0) + 1

    def disagree(self, sig, what, payload):
        key = json.dumps(sig, sort_keys=True)
        n = self.by_sig.get(key, 0)
        self.by_sig[key] = n + 1
        if n < MAX_PER_SIG:
            self.dis.append((sig, what, payload))


def check_batch(acc, universe, cases, volume=False):
    """cases: specification cases ({b, st, cls, at, t}) or, for volume, {b} only."""
    hc = [lu.lex_case(c["b"]) for c in cases]
    if volume:
        for h in hc:
            h["values"] = False
    results = run_cases(hc, f"c14_w{os.getpid()}", timeout_ms=10000, workers=3)
    tag = universe[:3].encode()
    for c, r in zip(cases, results):
        bs = c["b"]
        acc.n += 1
        if len(bs) >= 2:
            acc.digests.append(hashlib.blake2b(tag + bytes(bs), digest_size=8).digest())
        payload = {"bytes": list(bs), "universe": universe,
                   "expected": None if volume else {k: c[k] for k in ("st", "cls", "at", "t")}}
        if vlib.is_crash(r):
            acc.outcome(universe, "crash")
            acc.disagree({"kind": "lex", "class": "crash", "universe": universe},
                         f"lexing {lu.show(bs)} crashed: {vlib.crash_desc(r)}", payload)
            continue
        v = lu.tiling_violation(r)
        if v is not None:
            acc.outcome(universe, "tiling-violation")
            acc.disagree({"kind": "lex", "class": "tiling", "universe": universe}, f"{lu.show(bs)}: {v}", payload)
            if len(acc.rejected) < 3:
                acc.rejected.append(r)
        if volume:
            acc.outcome(universe, "error" if "error" in r["all"] else "tokens")
            if v is None and len(bs) <= 400 and len(acc.sampled) < 400 and acc.n % 7 == 0:
                acc.sampled.append(r)
            continue
        st = c["st"]
        acc.outcome(universe, "spec-" + (st if st != "err" else "err-" + c["cls"]))
        if st == "outside":
            acc.outside += 1
            continue
        if st == "ok":
            for t in c["t"]:
                acc.tokkinds[t[0]] = acc.tokkinds.get(t[0], 0) + 1
        d = lu.compare(c, r)
        if d is not None:
            cls, tok, text, detail = d
            acc.disagree({"kind": "lex", "class": cls, "tok": tok, "detail": detail, "universe": universe},
                         text, payload)
    if cases:
        c = cases[len(cases) // 2]
        if volume:
            acc.samples.append({"universe": universe, "input": lu.show(c["b"][:60]), "bytes": len(c["b"])})
        else:
            acc.samples.append({"universe": universe, "input": lu.show(c["b"][:48]), "bytes": len(c["b"]), "spec": c["st"],
                                "tokens": [[t[0], t[1], t[2]] for t in c["t"]][:8]})


def read_tlc_chunk(path, start, end):
    """The CASE payloads of the lines of a TLC output file that begin in [start, end)."""
    prefix = b'<<"CASE", '
    out = []
    with open(path, "rb") as f:
        if start > 0:
            f.seek(start - 1)
            f.readline()           # the line that began before `start` belongs to the previous chunk
        while f.tell() < end:
            line = f.readline()
            if not line:
                break
            if line.startswith(prefix):
                lit = line[len(prefix):].rstrip()
                if lit.endswith(b">>"):
                    lit = lit[:-2]
                out.append(json.loads(json.loads(lit)))
    return out


def work(task):
    """Runs in a pool worker: one batch, returns its Acc."""
    acc = Acc()
    kind, universe = task[0], task[1]
    if kind == "tlc":
        cases = read_tlc_chunk(*task[2:])
        if universe == "utf8":
            # cross-check of the Python codec oracle (py-lossy) with Lex.tla's Utf8Lossy
            for c in cases:
                bs = bytes(c["b"])
                if c["st"] == "ok" and c["t"][0][0] == "String" and bs[:1] in (b'"', b"'") and b"\\" not in bs:
                    if [ord(ch) for ch in bs[1:-1].decode("utf-8", "replace")] != c["t"][0][3]:
                        raise vlib.ToolError(f"Utf8Lossy of Lex.tla and CPython disagree on {bs!r}")
                    acc.py_codec_checked += 1
        check_batch(acc, universe, cases)
    elif kind == "cases":
        check_batch(acc, universe, task[2])
    elif kind == "gen":
        _, _, seed, chunk, n = task
        r = vlib.rng(seed, f"c14-{universe}-{chunk}")
        if universe == "random":
            inputs = lu.gen_random(r, n)
        else:
            ds = [d for (_, d) in lu.corpus() if d]
            inputs = [lu.mutate(r, r.choice(ds)) for _ in range(n)]
        check_batch(acc, universe, [{"b": b} for b in inputs], volume=True)
    elif kind == "volume":
        check_batch(acc, universe, [{"b": b} for b in task[2]], volume=True)
    return acc


# ---------------------------------------------------------------------------
# universes whose oracle is computed in Python from laws TLC checks on the spec

def str_case(src, cps):
    n = len(src)
    return {"b": list(src), "st": "ok", "cls": "", "at": 0,
            "t": [["String", 0, n, list(cps), 0], ["EndOfFile", n, n, [], 0]]}


def err_case(src, cls, at=0):
    return {"b": list(src), "st": "err", "cls": cls, "at": at, "t": []}


def scalar_cases(tier, rng):
    """Every Unicode scalar value, raw (UTF-8) inside a string literal, 64 per literal; its code
    point is the value (Lex.tla LawScalar, checked by TLC over the same scalars)."""
    scal = [cp for cp in range(0x110000) if not 0xD800 <= cp <= 0xDFFF and cp not in (0x22, 0x5C)]
    chunks = [scal[i:i + 64] for i in range(0, len(scal), 64)]
    if tier == "quick":
        keep = set(range(0, 40)) | {len(chunks) - 1} | set(rng.sample(range(len(chunks)), 700))
        keep |= {k for k in range(len(chunks)) if chunks[k][0] <= 0xFFFF <= chunks[k][-1] + 64}
        chunks = [chunks[k] for k in sorted(keep)]
    out = []
    for ch in chunks:
        src = b'"' + "".join(map(chr, ch)).encode("utf-8") + b'"'
        out.append(str_case(src, ch))
    return out


def escape_cases(tier, rng):
    """\\uXXXX for every code unit (32 per literal; every surrogate alone is an error), and
    surrogate pairs for sampled supplementary code points, in both hex cases."""
    out = []
    units = list(range(0x10000))
    bmp = [u for u in units if not 0xD800 <= u <= 0xDFFF]
    sur = [u for u in units if 0xD800 <= u <= 0xDFFF]
    if tier == "quick":
        bmp = sorted(set(bmp[:256]) | set(rng.sample(bmp, 4000)) | {0xD7FF, 0xE000, 0xFFFF, 0xFFFD, 0xFEFF})
        sur = sorted({0xD800, 0xDBFF, 0xDC00, 0xDFFF} | set(rng.sample(sur, 200)))
    for i in range(0, len(bmp), 32):
        ch = bmp[i:i + 32]
        fmt = "\\u%04x" if (i // 32) % 2 else "\\u%04X"
        out.append(str_case(b"'" + "".join(fmt % u for u in ch).encode() + b"'", ch))
    for u in sur:
        out.append(err_case(b'"\\u%04x"' % u, "string"))
        out.append(err_case(b'"\\u%04X\\u0041"' % u, "string"))
    sup = [0x10000, 0x103FF, 0x10400, 0x1F600, 0x10FC00, 0x10FFFF]
    sup += [rng.randrange(0x10000, 0x110000) for _ in range(2000 if tier == "quick" else 60000)]
    for k, cp in enumerate(sup):
        v = cp - 0x10000
        hi, lo = 0xD800 + (v >> 10), 0xDC00 + (v & 0x3FF)
        fmt = "\"a\\u%04x\\u%04X\"" if k % 2 else "\"a\\u%04X\\u%04x\""
        out.append(str_case((fmt % (hi, lo)).encode(), [97, cp]))
        if k % 16 == 0:     # reversed pair: low surrogate first
            out.append(err_case(("\"\\u%04x\\u%04x\"" % (lo, hi)).encode(), "string"))
    return out


INTERESTING = [0x00, 0x41, 0x7f, 0x80, 0x8f, 0x90, 0x9f, 0xa0, 0xbf, 0xc0, 0xc1, 0xc2, 0xdf, 0xe0, 0xe1, 0xec,
               0xed, 0xee, 0xef, 0xf0, 0xf1, 0xf3, 0xf4, 0xf5, 0xf7, 0xf8, 0xfb, 0xfc, 0xfe, 0xff]


def lossy_cases(tier, rng):
    """String bodies of arbitrary bytes: the value is the lossy decoding of the body. The oracle
    here is CPython's decoder (maximal-subpart replacement); it is cross-checked against
    Lex.tla's Utf8Lossy on every case of the TLC `utf8` universe."""
    bodies = [bytes([a, b]) for a in range(256) for b in range(256)]
    if tier == "quick":
        bodies = rng.sample(bodies, 6000)
    n_rand = 8000 if tier == "quick" else 100000
    for _ in range(n_rand):
        bodies.append(bytes(rng.choice(INTERESTING) for _ in range(rng.randrange(1, 7))))
    out = []
    for k, body in enumerate(bodies):
        c = k % 4
        if c == 0 and not (set(body) & {0x22, 0x5C}):
            src = b'"' + body + b'"'
        elif c == 1 and not (set(body) & {0x27, 0x5C}):
            src = b"'" + body + b"'"
        elif c == 2 and 0x22 not in body:
            src = b'@"' + body + b'"'
        elif c == 3 and not (set(body) & {0x0A, 0x0D}) and body[:1] not in (b" ", b"\t"):
            src = b"|||\n\t" + body + b"\n|||"
            cps = [ord(ch) for ch in body.decode("utf-8", "replace")] + [10]
            n = len(src)
            out.append({"b": list(src), "st": "ok", "cls": "", "at": 0,
                        "t": [["TextBlock", 0, n, cps, 0], ["EndOfFile", n, n, [], 0]]})
            continue
        else:
            continue
        out.append(str_case(src, [ord(ch) for ch in body.decode("utf-8", "replace")]))
    return out


# ---------------------------------------------------------------------------

def volume_tasks(tier, seed):
    """Pool tasks for the tiling property on arbitrary bytes."""
    r = vlib.rng(seed, "c14-volume")
    files = lu.corpus()
    n_rand = 45_000 if tier == "quick" else 600_000
    n_mut = 12_000 if tier == "quick" else 150_000
    per_file_trunc = 6 if tier == "quick" else 60
    step = 15_000 if tier == "quick" else 50_000
    for k in range(0, n_rand, step):
        yield ("gen", "random", seed, k // step, min(step, n_rand - k))
    for k in range(0, n_mut, step):
        yield ("gen", "mutated", seed, k // step, min(step, n_mut - k))
    yield ("volume", "corpus", [d for (_, d) in files])
    trunc = []
    for _, d in files:
        pts = set(range(0, min(len(d), 24)))
        pts |= {r.randrange(0, len(d) + 1) for _ in range(per_file_trunc)}
        # truncation points just after interesting bytes (inside strings, comments, text blocks)
        hot = [i + 1 for i, ch in enumerate(d) if ch in b"\"'\\|/*@"]
        if hot:
            pts |= set(r.sample(hot, min(len(hot), per_file_trunc)))
        trunc.extend(d[:p] for p in sorted(pts) if p <= 20000)
    for k in range(0, len(trunc), 8000):
        yield ("volume", "truncated", trunc[k:k + 8000])


def validate_traces(chk, tier, seed, sampled, rejected):
    """TLC (spec/Trace_Lex.tla) over the recorded streams of a sample of the volume inputs; the
    verdict must equal the Python evaluator's."""
    d = vlib.workdir("c14")
    budget = 40_000 if tier == "quick" else 200_000
    path = os.path.join(d, f"trace_{seed}.ndjson")
    n_ev = n_in = 0
    with open(path, "w") as f:
        for r in sampled:
            ev = lu.trace_events(r)
            if n_ev + len(ev) > budget:
                break
            for e in ev:
                f.write(json.dumps(e, separators=(",", ":")) + "\n")
            n_ev += len(ev)
            n_in += 1
    res = run_tlc("Trace_Lex", "Trace_Lex.cfg", "c14_trace", workers=1, deque=True, env={"TRACE": path},
                  coverage=False, timeout=1500)
    chk.add_tlc(res, f"Trace_Lex over {n_in} recorded inputs, {n_ev} events")
    if res.rc != 0 or res.error:
        raise vlib.ToolError(
            f"evaluators disagree: Python accepts all {n_in} sampled streams, TLC rejects the trace at event "
            f"{res.depth} (see {res.out_path})")
    if res.depth != n_ev + 1:
        raise vlib.ToolError(f"Trace_Lex consumed {res.depth - 1} of {n_ev} events")
    # negative control + every stream the Python evaluator rejected must be rejected by TLC as well
    bad = [{"len": 2, "all": {"tokens": [["Ident", 0, 1], ["Ident", 0, 2], ["EndOfFile", 2, 2]]},
            "nows": {"tokens": [["Ident", 0, 1], ["Ident", 0, 2], ["EndOfFile", 2, 2]]}}]
    assert lu.tiling_violation(bad[0]) is not None
    for k, r in enumerate(bad + rejected[:3]):
        p2 = os.path.join(d, f"trace_{seed}_bad{k}.ndjson")
        with open(p2, "w") as f:
            for e in lu.trace_events(r):
                f.write(json.dumps(e, separators=(",", ":")) + "\n")
        res2 = run_tlc("Trace_Lex", "Trace_Lex.cfg", f"c14_trace_bad{k}", workers=1, deque=True,
                       env={"TRACE": p2}, coverage=False, timeout=300)
        if res2.rc == 0 and not res2.error:
            raise vlib.ToolError(f"evaluators disagree: Python rejects {p2}, TLC accepts it")
        os.unlink(p2)
    chk.extra["trace_lex"] = {"inputs": n_in, "events": n_ev, "negative_controls_rejected": 1 + len(rejected[:3])}
    os.unlink(path)


CHUNK_BYTES = 16 << 20


def stretch_at(b, tok):
    """Lex.tla StretchAt: (0-based insertion offset, filler byte) or None."""
    kind, s0 = tok[0], tok[1]
    c = b[s0] if s0 < len(b) else 256
    if kind == "Whitespace":
        return s0, 32
    if kind == "Comment":
        return (s0 + 1, 97) if c == 35 else (s0 + 2, 97)
    if kind == "String" and c in (34, 39):
        return s0 + 1, 97
    if kind == "String" and c == 64:
        return s0 + 2, 97
    return None


def stretch_part(chk, res, rnd):
    """Tokens of 2^25 / 2^26 bytes (where the packed span id changes representation): a case of the items3
    universe is stretched inside one comment / whitespace run / string by the law LawStretchR of Lex.tla
    (checked by TLC for k = 1, 2), expected kinds and spans follow by shifting."""
    by_kind = {}
    for c in res.lines("CASE"):
        if c["st"] != "ok":
            continue
        for j, t in enumerate(c["t"]):
            p = stretch_at(c["b"], t)
            if p is not None:
                key = (t[0], c["b"][t[1]])
                by_kind.setdefault(key, [])
                if len(by_kind[key]) < 40:
                    by_kind[key].append((c, j, p))
    if len(by_kind) < 5:
        raise vlib.ToolError(f"stretch part: only {sorted(by_kind)} stretchable token forms in the items3 universe")
    cases, metas = [], []
    targets = [2 ** 25 - 1, 2 ** 25, 2 ** 25 + 1, 2 ** 26 - 1, 2 ** 26]
    for key in sorted(by_kind):
        picks = rnd.sample(by_kind[key], min(2, len(by_kind[key])))
        for n, (c, j, (at, byte)) in enumerate(picks):
            tok = c["t"][j]
            for target in (targets if n == 0 else rnd.sample(targets, 2)):
                k = target - (tok[2] - tok[1])
                exp = []
                for m, t in enumerate(c["t"]):
                    exp.append((t[0], t[1] + (k if m > j else 0), t[2] + (k if m >= j else 0)))
                cases.append({"k": "lex", "hex": bytes(c["b"]).hex(), "compact": True, "values": False,
                              "stretch": {"at": at, "byte": byte, "count": k}})
                metas.append((c, j, target, exp))
    results = run_cases(cases, "c14_stretch", timeout_ms=60000, workers=4, mem_mb=4000)
    n_ok = 0
    for case, (c, j, target, exp), r in zip(cases, metas, results):
        chk.count(key="stretch:" + json.dumps(case, sort_keys=True), nontrivial=True)
        what = f"{lu.show(c['b'])} with token #{j} ({c['t'][j][0]}) stretched to {target} bytes"
        if vlib.is_crash(r):
            chk.disagree({"kind": "lex", "class": "crash", "universe": "stretch", "tok": c["t"][j][0]},
                         f"{what}: {vlib.crash_desc(r)[:300]}", case)
            continue
        for mode, expm in (("all", exp), ("nows", [t for t in exp if t[0] not in ("Whitespace", "Comment")])):
            a = r.get(mode, {})
            got = [(t[0], t[1], t[2]) if not isinstance(t, dict) else ("foreign-context", t["start"], t["end"])
                   for t in a.get("tokens", [])]
            if "error" in a or got != expm:
                first = next((x for x in zip(got, expm) if x[0] != x[1]), None)
                chk.disagree({"kind": "lex", "class": "wrong-span", "universe": "stretch", "tok": c["t"][j][0]},
                             f"{what}: lex_to_eof({'true' if mode == 'all' else 'false'}) gives "
                             f"{a.get('error') or first or (len(got), 'tokens')}, specification (LawStretchR) says {expm[:6]}", case)
                break
        else:
            n_ok += 1
    chk.extra["stretched_tokens"] = {"cases": len(cases), "agree": n_ok, "forms": [f"{k[0]}:{k[1]}" for k in sorted(by_kind)]}


def run(tier, seed):
    chk = Check(PROP, tier, seed)
    chk.rule = ("one evaluation = one input byte string lexed by lex_to_eof(true) and lex_to_eof(false); distinct = "
                "(universe, bytes); non-trivial = the input has at least 2 bytes")
    chk.assumptions = [
        "operators: a '//', '/*' or '|||' inside a run of operator characters ends the operator where it starts "
        "(reading of 'not allowed in an operator' shared by both reference implementations)",
        "numbers: scanning is committed - after '.', 'e', a sign or '_' a digit must follow (no backtracking to a "
        "shorter number); '0' directly followed by a digit or '_' is outside the decided domain",
        "a '#'/'//' comment token includes its line terminator; text blocks: only empty lines (LF or CRLF) are "
        "skipped before the first line; '|||-' after a CRLF line end is outside the decided domain",
        "located error: only its class (character/comment/number/string/text block) and start >= offset of the "
        "first token the grammar cannot form are compared",
        "all-scalars, \\u escapes and random string bodies use a Python oracle (code point identity; CPython's "
        "utf-8 'replace' decoder), cross-checked against Lex.tla on the TLC utf8/items universes",
    ]
    vlib.build_harness()
    cfgs = QUICK if tier == "quick" else THOROUGH
    r = vlib.rng(seed, "c14")
    total = Acc()
    counts = {"tlc_cases": 0}
    # the pool forks before any thread exists
    pool = multiprocessing.get_context("fork").Pool(NPROC)

    def tlc_job(name):
        return run_tlc("MC_Lex", f"MC_Lex_{name}.cfg", f"c14_{name}", workers=3 if tier == "quick" else 5,
                       coverage=False, timeout=3000, heap="3g")

    def tasks(futs):
        for uni, gen in (("py-scalars", scalar_cases), ("py-escapes", escape_cases), ("py-lossy", lossy_cases)):
            cases = gen(tier, r)
            for i in range(0, len(cases), 25_000):
                yield ("cases", uni, cases[i:i + 25_000])
        yield from volume_tasks(tier, seed)
        for name, fut in futs:
            res = fut.result()
            tlc_must_pass(res, f"Lex laws on universe {name}")
            chk.add_tlc(res, f"MC_Lex {name}: laws + case emission")
            size = os.path.getsize(res.out_path)
            for start in range(0, size, CHUNK_BYTES):
                yield ("tlc", name.replace("_quick", ""), res.out_path, start, min(size, start + CHUNK_BYTES))

    def merge(acc):
        total.n += acc.n
        chk.evaluations += acc.n
        chk.traces_validated += acc.n
        if len(chk.nontrivial) < 5_000_000:
            chk.nontrivial.update(acc.digests)
        chk.outside += acc.outside
        total.py_codec_checked += acc.py_codec_checked
        for u, d in acc.outcomes.items():
            for k, v in d.items():
                total.outcomes.setdefault(u, {})
                total.outcomes[u][k] = total.outcomes[u].get(k, 0) + v
                if k.startswith("spec-"):
                    counts["tlc_cases"] += v if not u.startswith("py-") else 0
        for k, v in acc.tokkinds.items():
            total.tokkinds[k] = total.tokkinds.get(k, 0) + v
        for k, v in acc.by_sig.items():
            total.by_sig[k] = total.by_sig.get(k, 0) + v
        seen = {}
        for sig, what, payload in acc.dis:
            key = json.dumps(sig, sort_keys=True)
            seen[key] = seen.get(key, 0) + 1
            if total.by_sig[key] - acc.by_sig[key] + seen[key] <= MAX_PER_SIG:
                chk.disagree(sig, what, payload)
        for smp in acc.samples:
            if not any(x["universe"] == smp["universe"] for x in chk.samples):
                chk.sample(smp, limit=8)
        if len(total.sampled) < 60_000:
            total.sampled.extend(acc.sampled)
        total.rejected.extend(acc.rejected[:max(0, 3 - len(total.rejected))])

    try:
        with ThreadPoolExecutor(max_workers=5 if tier == "quick" else 3) as ex:
            futs = [(name, ex.submit(tlc_job, name)) for name in cfgs]
            for acc in pool.imap(work, tasks(futs)):
                merge(acc)
        pool.close()
        pool.join()
    finally:
        pool.terminate()
        for dname in glob.glob(os.path.join(vlib.WORK, "cases", "c14_w*")):
            shutil.rmtree(dname, ignore_errors=True)
    t_st = __import__("time").time()
    stretch_part(chk, dict(futs)["items3"].result(), r)
    vlib.log(f"[C14] stretched tokens: {__import__('time').time() - t_st:.1f}s")
    for name in cfgs:
        uni = name.replace("_quick", "")
        if uni != "scalar" and not total.outcomes.get(uni):
            raise vlib.ToolError(f"universe {name} emitted no cases")
    sampled = sorted(total.sampled, key=lambda x: json.dumps(x, sort_keys=True))
    vlib.rng(seed, "c14-trace").shuffle(sampled)
    validate_traces(chk, tier, seed, sampled, total.rejected)

    chk.exhaustive = True      # every TLC universe is enumerated completely (volume inputs are sampled)
    chk.extra["outcomes_by_universe"] = total.outcomes
    chk.extra["expected_token_kinds"] = total.tokkinds
    chk.extra["spec_cases_from_tlc"] = counts["tlc_cases"]
    chk.extra["python_codec_cross_checked"] = total.py_codec_checked
    chk.extra["disagreements_by_sig"] = total.by_sig
    # vacuity: both outcome classes present and every token kind expected somewhere
    oc = {}
    for d in total.outcomes.values():
        for k, v in d.items():
            oc[k] = oc.get(k, 0) + v
    for need in ("spec-ok", "spec-err-char", "spec-err-comment", "spec-err-number", "spec-err-string",
                 "spec-err-textblock", "spec-outside", "tokens", "error"):
        if not oc.get(need):
            raise vlib.ToolError(f"vacuous run: no case with outcome {need}")
    for need in ("EndOfFile", "Whitespace", "Comment", "Ident", "Number", "String", "TextBlock", "OtherOp",
                 "Dollar", "Importbin", "PlusColonColonColon", "Dot"):
        if not total.tokkinds.get(need):
            raise vlib.ToolError(f"vacuous run: token kind {need} never expected")
    if not total.py_codec_checked:
        raise vlib.ToolError("the Python codec oracle was not cross-checked against Lex.tla")
    return chk.finish()


def replay(path):
    with open(path) as f:
        rp = json.load(f)
    vlib.build_harness()
    c = rp["case"]
    r = run_cases([lu.lex_case(c["bytes"])], "c14_replay")[0]
    out = {"input": lu.show(c["bytes"]), "universe": c.get("universe"), "result": r,
           "tiling": lu.tiling_violation(r) if not vlib.is_crash(r) else vlib.crash_desc(r)}
    if c.get("expected"):
        spec = dict(c["expected"], b=c["bytes"])
        out["expected"] = c["expected"]
        out["disagreement"] = None if vlib.is_crash(r) else lu.compare(spec, r)
    print(json.dumps(out, indent=1))
    return 0
