"""C03 - garbage collection is invisible to programs and exact about reachability.

 (a) spec/Heap.tla: the collector as coded; TLC checks GcExact / NoDangling /
     GcIdempotent exhaustively for small heaps.
 (b) every transition TLC explored is replayed on the real GcContext through the
     scripted driver (state built from the model state, action applied, survivors
     compared); simulated long behaviours are stepped through the real collector
     with the comparison after every operation.
 (c) evaluator level: programs are run under collection schedules (never, default
     heuristic, every step, periods/phases, explicit step sets); outcomes must be
     identical, no handle may die, and the object count must return to the
     baseline after one collection once results are dropped.
"""
import json
import os

import vlib
import corpus
from vlib import Check, run_tlc, tlc_must_pass, run_cases

PROP = "C03"


def build_script(st):
    """Operations that construct model state `st` on a fresh real heap."""
    ops = []
    objs = st["objs"]
    for o in objs:
        ops.append(["alloc", o])
    for o in objs:
        for t in st["edges"][o - 1]:
            ops.append(["add_edge", o, t])
    for o in objs:
        for _ in range(st["view"][o - 1]):
            ops.append(["add_view", o])
        for _ in range(max(0, st["ext"][o - 1] - 1)):
            ops.append(["add_ext", o])
    for o in objs:
        if st["ext"][o - 1] == 0:
            ops.append(["drop_ext", o])
    return ops


def check_obs(chk, ops, obs, expect, label, first_checked=0):
    """expect[i] = expected live list after op i (or None = unchecked)."""
    for i, (op, ob) in enumerate(zip(ops, obs)):
        if ob["err"] is not None or ob["reach_err"] is not None:
            if i < first_checked and ob["err"] is not None:
                raise vlib.ToolError(f"state construction failed at {op}: {ob}")
            chk.disagree(
                {"kind": "heap", "class": "dead-handle", "op": op[0]},
                f"{label}: after {op} a held handle is dead or the op failed: err={ob['err']} reach_err={ob['reach_err']}",
                {"k": "heap", "ops": ops, "at": i})
            return False
        if expect[i] is not None:
            if sorted(ob["live"]) != sorted(expect[i]) or ob["n"] != len(expect[i]):
                chk.disagree(
                    {"kind": "heap", "class": "survivors", "op": op[0]},
                    f"{label}: after op #{i} {op} real survivors {sorted(ob['live'])} (n={ob['n']}) "
                    f"but the specification says {sorted(expect[i])}",
                    {"k": "heap", "ops": ops, "at": i, "expected": sorted(expect[i])})
                return False
    return True


def heap_part(chk, tier, seed):
    # (a) exhaustive model check
    cfg = "MC_Heap.cfg" if tier == "quick" else "MC_Heap4.cfg"
    res = run_tlc("MC_Heap", cfg, "c03_heap_mc", workers=8, timeout=3000)
    tlc_must_pass(res, "Heap model")
    chk.add_tlc(res, f"Heap exhaustive ({cfg})")
    for act in ("Alloc", "AddEdge", "DelEdge", "AddExt", "AddView", "DropExt", "DropView", "Gc"):
        if act in res.coverage and res.coverage[act][1] == 0:
            raise vlib.ToolError(f"vacuity: action {act} never taken in {cfg}")

    # (b1) one implementation test per explored transition
    res = run_tlc("MC_Heap", "MC_Heap_emit.cfg", "c03_heap_emit", workers=8, timeout=1800,
                  coverage=False)
    tlc_must_pass(res, "Heap transition emission")
    chk.add_tlc(res, "Heap transitions emitted")
    cases, metas = [], []
    seen = set()
    for t in res.lines("STEP"):
        key = json.dumps([t["pre"], t["act"], t["args"]], sort_keys=True)
        if key in seen:
            continue
        seen.add(key)
        build = build_script(t["pre"])
        ops = build + [[t["act"]] + list(t["args"])]
        cases.append({"k": "heap", "ops": ops})
        metas.append((len(build), t))
    results = run_cases(cases, "c03_heap_steps", timeout_ms=5000)
    ngc = 0
    for case, (nb, t), r in zip(cases, metas, results):
        if vlib.is_crash(r):
            chk.disagree({"kind": "heap", "class": "crash"},
                         f"collector crashed on transition {t['act']}{t['args']}: {vlib.crash_desc(r)}", case)
            continue
        expect = [None] * nb + [t["post"]["objs"]]
        # the constructed pre-state must itself match
        expect[nb - 1] = t["pre"]["objs"] if nb > 0 else None
        check_obs(chk, case["ops"], r["obs"], expect, "transition", first_checked=nb)
        nontrivial = t["act"] == "gc" and len(t["post"]["objs"]) != len(t["pre"]["objs"])
        ngc += t["act"] == "gc"
        chk.count(key=json.dumps([t["pre"], t["act"], t["args"]], sort_keys=True),
                  nontrivial=(t["act"] == "gc"))
        if nontrivial:
            chk.sample({"transition": {"pre": t["pre"], "act": t["act"], "post_objs": t["post"]["objs"]}}, limit=2)
    chk.traces_validated += len(cases)
    chk.extra["heap_transitions_replayed"] = len(cases)
    chk.extra["heap_gc_transitions_replayed"] = ngc

    # (b2) simulated behaviours stepped through the real collector
    nbeh = 3000 if tier == "quick" else 60000
    res = run_tlc("MC_Heap", "MC_Heap_sim.cfg", "c03_heap_sim", workers=1, simulate=None,
                  depth=25, seed=seed, env={"NBEH": str(nbeh)}, timeout=3000, coverage=False,
                  extra=["-simulate"])
    tlc_must_pass(res, "Heap simulation")
    chk.add_tlc(res, "Heap simulated behaviours")
    cases, exps = [], []
    seen = set()
    for b in res.lines("BEHAVIOUR"):
        key = json.dumps(b)
        if key in seen:
            continue
        seen.add(key)
        ops = [[s["act"]] + list(s["args"]) for s in b]
        cases.append({"k": "heap", "ops": ops})
        exps.append([s["live"] for s in b])
    results = run_cases(cases, "c03_heap_beh", timeout_ms=5000)
    for case, exp, r in zip(cases, exps, results):
        if vlib.is_crash(r):
            chk.disagree({"kind": "heap", "class": "crash"},
                         f"collector crashed on behaviour: {vlib.crash_desc(r)}", case)
            continue
        check_obs(chk, case["ops"], r["obs"], exp, "behaviour")
        gcs = sum(1 for o in case["ops"] if o[0] == "gc")
        chk.count(key=json.dumps(case["ops"]), nontrivial=gcs >= 2)
    if cases:
        chk.sample({"behaviour": cases[0]["ops"], "expected_live": exps[0]}, limit=3)
    chk.traces_validated += len(cases)
    chk.extra["heap_behaviours_replayed"] = len(cases)


def schedules(tier, seed, nsteps_hint=2000):
    sch = [{"mode": "never"}, {"mode": "default"}, {"mode": "period", "period": 1, "phase": 0}]
    periods = [2, 3, 5, 7] if tier == "quick" else [2, 3, 4, 5, 6, 7, 11, 13]
    r = vlib.rng(seed, "c03sched")
    for p in periods:
        phases = [r.randrange(p)] if tier == "quick" else list(range(p))
        for ph in phases:
            sch.append({"mode": "period", "period": p, "phase": ph})
    # explicit step sets early in the run
    nsets = 2 if tier == "quick" else 12
    for _ in range(nsets):
        k = r.randrange(1, 12)
        sch.append({"mode": "at", "steps": sorted(r.sample(range(0, 400), k))})
    return sch


def outcome_digest(r):
    if "ok" in r:
        return ("ok", r["ok"], tuple(r.get("traces", [])))
    return ("err", r["err"].get("full"), tuple(r.get("traces", [])))


def evaluator_part(chk, tier, seed, programs):
    sch = schedules(tier, seed)
    light = [sch[0], sch[2], sch[3], sch[-1]]    # never, every step, one period, one explicit step set
    cases, meta = [], []
    for name, src in programs:
        # deep structures: a collection costs as much as the structure is big, so they get the light set
        # of schedules in both tiers
        for s in (light if (name.startswith("gen:deep") or (tier == "quick" and name.startswith(("gen:", "inh:")))) else sch):
            # every other run also collects while only the request's value is held (before manifesting it)
            c = {"k": "eval", "src_bytes": list(src), "gc": s, "counts": True, "hold_gc": len(cases) % 2 == 1,
                 "max_stack": 1000000 if name.startswith("gen:deep") else 200}
            if name.startswith("gen:deep") and s.get("mode") == "period" and s.get("period", 9) < 50:
                # every-step collection of 10^5 objects is quadratic: a period proportional to the depth
                depth = int(name.rsplit(":", 1)[1])
                c["gc"] = {"mode": "period", "period": 997 if depth <= 20000 else 49999, "phase": s.get("phase", 0)}
            cases.append(c)
            meta.append((name, s))
    results = run_cases(cases, "c03_sched", timeout_ms=60000)
    by_prog = {}
    for (name, s), c, r in zip(meta, cases, results):
        by_prog.setdefault(name, []).append((s, c, r))
    for name, runs in by_prog.items():
        base = None
        for s, c, r in runs:
            chk.count(key=name + json.dumps(s), nontrivial=r.get("gcs", 0) > 0)
            if vlib.is_crash(r):
                if "timeout" in r:
                    chk.outside += 1
                    continue
                # a crash that also happens when never collecting is not a GC matter (C01)
                never = runs[0][2]
                if vlib.is_crash(never) and never.get("panic") == r.get("panic"):
                    chk.outside += 1
                    continue
                chk.disagree({"kind": "sched", "class": "crash", "msg": vlib.crash_desc(r)},
                             f"{name} under schedule {s}: {vlib.crash_desc(r)}", c)
                continue
            if "err" in r and r["err"].get("stage") != "eval":
                break  # does not load: nothing to schedule
            d = outcome_digest(r)
            if base is None:
                base = (s, d)
            elif d != base[1]:
                chk.disagree({"kind": "sched", "class": "outcome-differs"},
                             f"{name}: outcome under schedule {s} differs from schedule {base[0]}: "
                             f"{str(d)[:300]} vs {str(base[1])[:300]}", c)
            cnt = r.get("counts")
            if cnt and (cnt[1] != cnt[0] or cnt[2] != cnt[1]):
                chk.disagree({"kind": "sched", "class": "leak"},
                             f"{name} under schedule {s}: object count {cnt[0]} before the request, "
                             f"{cnt[1]} after dropping results and one collection, {cnt[2]} after a second one",
                             c)
    chk.extra["programs_scheduled"] = len(by_prog)
    chk.extra["schedules_per_program"] = len(sch)
    chk.sample({"program": programs[0][0], "schedules": sch[:4]}, limit=8)


def temporaries():
    """Temporaries that live ONLY on the evaluator's stacks while other work (and collections) goes on:
    an object / array literal whose fields were already forced (so that scopes derived from its own
    environment exist) is one operand, argument or element; the other one is evaluated next."""
    pre = ("local force(o) = if std.length(std.manifestJsonMinified(o)) >= 0 then o else o; "
           "local touch(o) = if std.length(std.toString(o.a)) >= 0 then o else o; "
           "local work(n) = std.foldl(function(a, i) a + i, std.range(1, n), 0); ")
    temps = [
        "{ a: local t = 20; [t + 1, t + 2], c: 5 }",
        "{ a: [x * 2 for x in [1, 2, 3]], c: self.a[0] }",
        "{ local u = 7, a: [{ b: u + 1, d: $.c }, u], c: 5 }",
        "{ a: (function(p) [p, { q: p + 1 }])(4), c: 5 }",
        "{ a: [self.c, super.c] } + { c: 5 }" if False else "({ c: 4 } + { a: [self.c, super.c + 1], c: 5 })",
        "{ [k]: [k, k + k] for k in ['a', 'c'] }",
    ]
    uses = [
        "{F}({T}) + (if work(300) > 0 then {{ b: [self.a[1], self.c] }} else {{}})",
        "[{F}({T}), work(300)][0].a",
        "(function(o, n) [o.a, o.c, n])({F}({T}), work(300))",
        "{F}({T}) == (if work(300) > 0 then {T} else null)",
        "local r = {F}({T}) + {{ z: work(300) }}; [r.z, r.a, r.c]",
        "std.length(std.objectFields({F}({T}) + {{ [if work(300) > 0 then 'n' else 'm']: 1 }}))",
        "[f for f in std.objectFields({F}({T}) + {{ w: 1 }}) if work(100) > 0]",
        "{F}({T}) {{ b: [work(300), super.a, self.c] }}",
    ]
    out = []
    for ti, t in enumerate(temps):
        for ui, u in enumerate(uses):
            for f in ("force", "touch"):
                out.append((f"gen:temp:{ti}:{ui}:{f}", (pre + u.replace("{F}", f).replace("{T}", t).replace("{{", "{").replace("}}", "}")).encode()))
    return out


def cli_deep_part(chk, tier, seed):
    """Deep live structures through the real binary with its default collection heuristic: the collector
    must cope with a reference chain of any depth (its mark phase works on a queue, not the native stack)."""
    import subprocess
    cli = vlib.build_cli()
    tmp = vlib.workdir("c03", f"tmp{os.getpid()}")
    progs = []
    for d in ((50000, 200000) if tier == "quick" else (50000, 200000, 600000)):
        progs.append((f"deeplist:{d}", f"local l = std.foldl(function(acc, i) {{ next: acc, v: i }}, std.range(1, {d}), null); "
                                       f"local len(n, k) = if n == null then k else len(n.next, k + 1) tailstrict; len(l, 0)", str(d)))
        progs.append((f"deeparr:{d}", f"local a = std.foldl(function(acc, i) [acc], std.range(1, {d}), 0); "
                                      f"local depth(x, k) = if std.isArray(x) then depth(x[0], k + 1) tailstrict else k; depth(a, 0)", str(d)))
    try:
        for name, src, want in progs:
            p = os.path.join(tmp, "deep.jsonnet")
            with open(p, "w") as f:
                f.write(src)
            try:
                pr = subprocess.run(["timeout", "-s", "KILL", "240", cli, "-s", "100000000", p], capture_output=True, timeout=300)
                rc, out, err = pr.returncode, pr.stdout.decode().strip(), pr.stderr.decode("utf-8", "replace")[-300:]
            except subprocess.TimeoutExpired:
                rc, out, err = -9, "", "timeout"
            chk.count(key="clideep:" + name, nontrivial=True)
            if rc in (-9, 137):
                chk.outside += 1
                continue
            if rc != 0 or out != want:
                chk.disagree({"kind": "cli-deep", "class": "crash" if rc not in (0, 1) else "wrong", "program": name.split(":")[0]},
                             f"binary on {name} with the default collection heuristic: exit status {rc}, output {out[:60]!r} "
                             f"(expected {want}), stderr tail {err[-160:]!r}", {"k": "eval", "src": src, "max_stack": 100000000})
    finally:
        import shutil
        shutil.rmtree(tmp, ignore_errors=True)
    chk.extra["cli_deep_programs"] = len(progs)


def run(tier, seed):
    chk = Check(PROP, tier, seed)
    chk.rule = ("heap: every transition of the exhaustively explored Heap model (distinct pre-state/action) "
                "and simulated 24-operation behaviours, non-trivial = a gc transition / a behaviour with >= 2 "
                "collections; evaluator: (program, schedule) pairs, non-trivial = at least one collection ran")
    chk.assumptions = [
        "the scripted driver (rsjsonnet-lang/src/verif.rs) holds exactly the handles the script names",
        "evaluator-level exactness is observed through the collector's object count",
    ]
    vlib.build_harness()
    heap_part(chk, tier, seed)
    progs = corpus.ui_programs()
    # generated programs (C02/C07 universes): objects sharing finished field thunks through
    # inheritance, mergePatch/prune/mapWithKey results extended with +, comprehensions, closures
    from checks import c02, c07
    saved = dict(c02.QUICK_SAMPLE)
    try:
        c02.QUICK_SAMPLE.update({"obj": 150, "comp": 80, "func": 60, "lazy": 40})
        gen = c02.generate(chk, "quick" if tier == "quick" else "quick", seed, slices=["obj", "comp", "func", "lazy"], label="c03gen")
    finally:
        c02.QUICK_SAMPLE.clear(); c02.QUICK_SAMPLE.update(saved)
    progs += [(f"gen:{sl}:{i}", src.encode()) for i, (sl, src, _) in enumerate(gen)]
    # deep live structures while collections run (the mark phase must not depend on their depth)
    for d in ((3000, 20000) if tier == "quick" else (3000, 20000, 100000)):
        progs.append((f"gen:deeplist:{d}", (f"local l = std.foldl(function(acc, i) {{ next: acc, v: i }}, std.range(1, {d}), null); "
                                            f"local len(n, k) = if n == null then k else len(n.next, k + 1) tailstrict; len(l, 0)").encode()))
        progs.append((f"gen:deeparr:{d}", f"local a = std.foldl(function(acc, i) [acc], std.range(1, {d}), 0); std.length(a)".encode()))
    progs += temporaries()
    inh = c07.gen(chk, "large", "identity", 0, seed) + c07.gen(chk, "small", "triples", 120 if tier == "quick" else 1500, seed)
    progs += [(f"inh:{i}", ("local o = " + c["srcs"][-1] + "; [o, o + {}, std.objectFields(o)]").encode()) for i, c in enumerate(inh)]
    evaluator_part(chk, tier, seed, progs)
    cli_deep_part(chk, tier, seed)
    return chk.finish()


def replay(path):
    with open(path) as f:
        rp = json.load(f)
    vlib.build_harness()
    case = {k: v for k, v in rp["case"].items() if k not in ("at", "expected")}
    r = run_cases([case], "c03_replay")[0]
    print(json.dumps({"what": rp["what"], "case": rp["case"], "result": r}, indent=1)[:6000])
    return 0
