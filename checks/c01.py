"""C01 - every input is answered with a value or a diagnosed error, never a crash.

spec/Pipeline.tla is the outcome protocol of one request (no action for a panic, abort,
internal assertion or timeout); spec/MC_Pipeline.tla generates the inputs: all byte strings
up to a length over byte-class representatives, every std function applied to every tuple of
boundary values (table frozen in the spec, cross-checked against std.objectFieldsAll(std)),
and simulated mutation sequences of the repository's own programs.  Every input is run in an
isolated worker; TLC validates the recorded outcomes against Trace_Pipeline.  A sample also
goes through the real binary: exit status in {0,1,2}, no signal, no `panicked at`."""
import json
import os
import subprocess
import concurrent.futures

import vlib
import corpus
from vlib import Check, run_tlc, tlc_must_pass, run_cases

PROP = "C01"


def cfg(uni, maxlen, big, nfiles):
    path = os.path.join(vlib.workdir("tlc"), f"gen_pl_{uni}_{maxlen}_{big}.cfg")
    with open(path, "w") as f:
        f.write(f'CONSTANTS Uni = "{uni}" MaxLen = {maxlen} Big = {"TRUE" if big else "FALSE"} NFiles = {nfiles}\n'
                "INIT Init3\nNEXT Next3\nINVARIANTS OneOutcome Emit\nCHECK_DEADLOCK FALSE\n")
    return path


def apply_mutations(files, muts):
    buf = bytearray(files[muts[0]["file"] % len(files)][1])
    for m in muts:
        n = len(buf)
        a = n * m["a"] // 1000
        b = n * m["b"] // 1000
        lo, hi = min(a, b), max(a, b)
        op = m["op"]
        if op == "delete":
            del buf[lo:max(hi, lo + 1)]
        elif op == "insert":
            buf[a:a] = bytes([m["byte"]])
        elif op == "replace":
            if n:
                buf[min(a, n - 1)] = m["byte"]
        elif op == "dup":
            buf[hi:hi] = buf[lo:hi]
        elif op == "truncate":
            del buf[a:]
        elif op == "splice":
            other = files[m["other"] % len(files)][1]
            ob = len(other) * m["b"] // 1000
            buf = bytearray(bytes(buf[:a]) + other[ob:])
    return bytes(buf)


def nest_program(shape, d):
    """Deeply nested source text of one syntactic shape (the property quantifies over all programs)."""
    t = {
        "obj": ("{a:" * d, "1", "}" * d),
        "arr": ("[" * d, "1", "]" * d),
        "paren": ("(" * d, "1", ")" * d),
        "local": ("local x = " * d, "1", "; x" * d),
        "if": ("if true then " * d, "1", " else 0" * d),
        "func": ("function() " * d, "1", ""),
        "callarg": ("std.length(" * d, "[]", ")" * d),
        "unary": ("-" * d, "1", ""),
        "binary": ("1+(" * d, "1", ")" * d),
        "index": ("[" * d, "0", "][0]" * d),
        "objcomp": ("{[k]: " * d, "1", " for k in ['a']}" * d),
        "arrcomp": ("[" * d, "1", " for x in [1]]" * d),
        "error": ("error " * d, "'e'", ""),
        "assert": ("assert true; " * d, "1", ""),
        "field": ("{a: 1}", "", ".a" * 0) if d == 0 else ("", "{a: " * 1 + "1}" , "" ),
        "fieldplus": ("{a+: " * d, "{}", "}" * d),
        "textual": ("1 " + "+ 1 " * d, "", ""),
    }[shape]
    if shape == "field":
        return "local o = {a: self}; o" + ".a" * d
    return t[0] + t[1] + t[2]


def outcome_of(r):
    if "panic" in r:
        return "panic"
    if "crash" in r:
        return "crash"
    if "timeout" in r:
        return "timeout"
    if "ok" in r:
        return "value"
    return "error:" + r["err"]["stage"]


def is_resource(r):
    """Resource exhaustion that is not a crash of the implementation's logic: time limit or the
    allocator giving up under the memory limit of the worker."""
    if "timeout" in r:
        return True
    if "crash" in r and ("memory allocation of" in r.get("stderr", "") or "capacity overflow" in r.get("stderr", "")):
        return True
    if "panic" in r and ("capacity overflow" in r["panic"] or "memory allocation" in r["panic"]):
        return True
    return False


def run(tier, seed):
    chk = Check(PROP, tier, seed)
    chk.rule = ("byte strings (all, up to a length, over byte classes), std calls (function x boundary tuples), mutated corpus "
                "programs; distinct = input; non-trivial = the input gets past the lexer (bytes/mutants) or is a std call")
    chk.assumptions = ["resource exhaustion that is not a crash (per-case time limit, allocator failure under the worker's "
                       "memory limit) is outside the property's decision and counted as outside domain",
                       "the std table frozen in MC_Pipeline.tla is cross-checked against the implementation's std object"]
    vlib.build_harness()
    cli = vlib.build_cli()
    files = corpus.ui_programs(plain_only=True)
    inputs = []   # (label, case)

    # cross-check of the std table
    tab = run_cases([{"k": "eval", "manifest": "single",
                      "src": "{[f]: if std.isFunction(std[f]) then std.length(std[f]) else -1 for f in std.objectFieldsAll(std)}"}],
                    "c01_tab")[0]
    impl_tab = json.loads(tab["ok"])
    res = run_tlc("MC_Pipeline", cfg("std0", 0, False, len(files)), "c01_std0", workers=2, timeout=600, coverage=False)
    tlc_must_pass(res, "std table")
    spec_tab = {c["fn"] for c in res.lines("CASE")}
    if spec_tab != set(impl_tab):
        raise vlib.ToolError(f"std table of the specification differs from the implementation: only in spec {sorted(spec_tab - set(impl_tab))}, "
                             f"only in implementation {sorted(set(impl_tab) - spec_tab)}: update StdTable in spec/MC_Pipeline.tla")

    big = tier == "thorough"
    plan = [("bytes", 3 if not big else 4), ("utf8", 0), ("fmt", 0), ("nest", 0), ("std1", 0), ("std2", 0), ("std3", 0), ("std4", 0)]
    for uni, maxlen in plan:
        res = run_tlc("MC_Pipeline", cfg(uni, maxlen, big, len(files)), f"c01_{uni}", workers=8, timeout=3000, coverage=False)
        tlc_must_pass(res, f"universe {uni}")
        chk.add_tlc(res, f"universe {uni}")
        for c in res.lines("CASE"):
            if c["kind"] == "bytes":
                inputs.append(("bytes", {"k": "eval", "src_bytes": c["bytes"], "max_stack": 100}))
            elif c["kind"] == "nest":
                inputs.append((f"nest:{c['shape']}:{c['depth']}",
                               {"k": "eval", "src": nest_program(c["shape"], c["depth"]), "max_stack": 500}))
            else:
                if impl_tab.get(c["fn"]) != len(c["args"]):
                    raise vlib.ToolError(f"arity of std.{c['fn']} differs: spec {len(c['args'])}, implementation {impl_tab.get(c['fn'])}")
                src = f"std.{c['fn']}({', '.join(c['args'])})"
                if len(inputs) % 2 == 1:
                    # every other call also has its result consumed: a number that should not exist
                    # (NaN, infinity) is harmless until it is ordered, sorted or printed
                    src = (f"local r = {src}; if std.isNumber(r) then [r, r < 1, r >= r, std.sort([1, r, 0]), "
                           f"std.max(r, 0), std.toString(r)] else r")
                inputs.append(("std:" + c["fn"], {"k": "eval", "src": src, "max_stack": 200}))
    # ill-scoped and well-scoped programs of the static-analysis universe (spec/MC_Static.tla, shared with C09):
    # here only the outcome protocol is decided (a diagnosed error or a value, never a crash)
    from checks import c09
    for depth, sample in ((1, 0), (2, 3000 if tier == "quick" else 0)):
        res = run_tlc("MC_Static", c09.cfg(depth, sample), f"c01_static_d{depth}", workers=8, seed=seed, timeout=3000, coverage=False)
        tlc_must_pass(res, f"Static depth {depth}")
        chk.add_tlc(res, f"universe scope: contexts x fillers at depth {depth} (sample={sample})")
        for src in sorted({c["src"] for c in res.lines("CASE")}):
            inputs.append(("scope", {"k": "eval", "src": src, "max_stack": 100}))
    nmut = 3000 if tier == "quick" else 100000
    res = run_tlc("MC_Pipeline", cfg("mut", 0, False, len(files)), "c01_mut", workers=1, seed=seed, depth=4,
                  env={"NCASES": str(nmut)}, timeout=3000, coverage=False, extra=["-simulate"])
    tlc_must_pass(res, "mutation simulation")
    chk.add_tlc(res, "simulated mutation sequences")
    seen = set()
    for c in res.lines("CASE"):
        key = json.dumps(c["muts"])
        if key in seen:
            continue
        seen.add(key)
        data = apply_mutations(files, c["muts"])
        inputs.append(("mut", {"k": "eval", "src_bytes": list(data), "max_stack": 40 if len(seen) % 3 == 0 else 200}))

    cases = [c for _, c in inputs]
    results = run_cases(cases, "c01", timeout_ms=4000 if tier == "quick" else 8000, mem_mb=3000)
    lines = []
    counts = {}
    bad_idx = []
    for (label, case), r in zip(inputs, results):
        o = outcome_of(r)
        counts[o] = counts.get(o, 0) + 1
        chk.count(key=json.dumps(case.get("src") or case.get("src_bytes")),
                  nontrivial=(label.startswith("std") or o not in ("error:lex",)))
        if is_resource(r):
            chk.outside += 1
            continue
        lines.append({"ev": "run", "outcome": o})
        if o in ("panic", "crash"):
            src = case.get("src") or bytes(case["src_bytes"]).decode("utf-8", "replace")
            fn = label.split(":")[1] if ":" in label else label
            payload = case if len(src) < 2000 else {"k": "eval", "generator": label, "src_prefix": src[:200]}
            chk.disagree({"kind": "crash", "class": o, "input": label.split(":")[0], "fn": fn,
                          "depth": label.split(":")[2] if label.startswith("nest:") else "", "msg": vlib.crash_desc(r)[:200]},
                         f"{label}: `{src[:120]}` -> {vlib.crash_desc(r)[:300]}", payload)
            bad_idx.append(len(lines) - 1)
    # TLC validates the recorded outcomes (the runs with a crash removed: they are reported above,
    # and one of them, if any, must be rejected by TLC)
    good = [l for i, l in enumerate(lines) if i not in set(bad_idx)]
    d_ = vlib.workdir("traces")
    for ci in range(0, len(good), 300000):
        path = os.path.join(d_, f"c01_{ci}.ndjson")
        with open(path, "w") as f:
            for rec in good[ci:ci + 300000]:
                f.write(json.dumps(rec) + "\n")
        res = run_tlc("Trace_Pipeline", "Trace_Pipeline.cfg", f"c01_trace_{ci}", workers=1, env={"TRACE": path}, timeout=3000,
                      deque=True, coverage=False, heap="6g", stack="1g")
        chk.add_tlc(res, f"outcome protocol validated ({len(good[ci:ci+300000])} runs)")
        if res.rc != 0 or res.error:
            raise vlib.ToolError(f"Trace_Pipeline rejected protocol-conformant outcomes: {res.out_path}")
    chk.traces_validated = len(good)
    if bad_idx:
        path = os.path.join(d_, "c01_bad.ndjson")
        with open(path, "w") as f:
            f.write(json.dumps(lines[bad_idx[0]]) + "\n")
        res = run_tlc("Trace_Pipeline", "Trace_Pipeline.cfg", "c01_trace_bad", workers=1, env={"TRACE": path}, timeout=600,
                      deque=True, coverage=False)
        if res.rc == 0 and not res.error:
            raise vlib.ToolError("Trace_Pipeline accepts a crash outcome")
    chk.extra["outcomes"] = counts

    # a sample through the real binary
    r = vlib.rng(seed, "c01cli")
    sample = r.sample(range(len(inputs)), min(len(inputs), 400 if tier == "quick" else 6000))
    tmp = vlib.workdir("c01", f"tmp{os.getpid()}")

    def run_cli(i):
        label, case = inputs[i]
        data = case["src"].encode() if "src" in case else bytes(case["src_bytes"])
        p = os.path.join(tmp, f"in{i}.jsonnet")
        with open(p, "wb") as f:
            f.write(data)
        try:
            pr = subprocess.run(["timeout", "-s", "KILL", "30", "bash", "-c",
                                 f"ulimit -v 3000000; exec {cli} -s {case.get('max_stack', 200)} {p}"],
                                capture_output=True, timeout=60)
            return i, pr.returncode, pr.stderr[-400:].decode("utf-8", "replace")
        except subprocess.TimeoutExpired:
            return i, 137, ""
        finally:
            os.unlink(p)

    exits = {}
    with concurrent.futures.ThreadPoolExecutor(max_workers=12) as ex:
        for i, rc, err in ex.map(run_cli, sample):
            exits[rc] = exits.get(rc, 0) + 1
            label, case = inputs[i]
            if rc in (137, -9) or "memory allocation of" in err:
                chk.outside += 1
                continue
            if rc not in (0, 1, 2) or "panicked at" in err or "overflowed its stack" in err:
                src = case.get("src") or bytes(case["src_bytes"]).decode("utf-8", "replace")
                chk.disagree({"kind": "cli", "class": "bad-exit", "exit": rc, "input": label.split(":")[0],
                              "fn": label.split(":")[1] if ":" in label else label},
                             f"binary on {label} `{src[:200]}`: exit status {rc}, stderr tail {err[-200:]!r}", case)
            chk.count(key="cli:" + str(i), nontrivial=True)
    os.rmdir(tmp)
    chk.extra["cli_exit_statuses"] = {str(k): v for k, v in exits.items()}
    for i in (0, len(inputs) // 2, len(inputs) - 1):
        c = inputs[i][1]
        chk.sample({"input": inputs[i][0], "src": c.get("src") or c.get("src_bytes")[:40]})
    # well-formed programs that keep very deep structures alive (shared with C03 / C10): no part of the
    # run-time system may depend on the native stack for them
    from checks import c03
    c03.cli_deep_part(chk, tier, seed)
    return chk.finish()


def replay(path):
    with open(path) as f:
        rp = json.load(f)
    vlib.build_harness()
    r = run_cases([rp["case"]], "c01_replay", mem_mb=3000)[0]
    print(json.dumps({"what": rp["what"], "result": {k: v for k, v in r.items() if k != "events"}}, indent=1)[:3000])
    return 1 if outcome_of(r) in ("panic", "crash") and not is_resource(r) else 0
