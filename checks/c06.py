"""C06 - numbers are always finite doubles, read and printed exactly.

spec/Num.tla is the oracle: IEEE-754 binary64 arithmetic reasoned about symbolically on the family
D = {+-0, +-2^e, +-(2^53-1)*2^e} of boundary doubles (MAX, least subnormal, least normal, 2^53 ...).
For every arithmetic operator and numeric builtin it gives the exact RESULT CLASS (value in D /
small integer / finite below a bound / overflow / NaN / language error / undecided) and the rule of
the property: overflow or NaN => the implementation must report an error, never deliver inf / NaN.
For decimal literal shapes over the digits {0, 1, 9} (runs of up to 400 digits, fraction, signed
exponents around +-308 / +-324 / +-400 / +-4000) it decides finite vs. overflow exactly and gives the
value when it is a small integer or zero.  TLC checks the algebraic laws of IEEE arithmetic on the
specification (commutativity, sign symmetry, exact doubling, x-x=0, floor<=x<=ceil, frexp, sqrt^2,
pow against * and /, monotone overflow, sum = left fold failing at the first overflow, sort/min/max,
literal point-shift invariance) and emits one case per input.

Every case is run through the real evaluator with the evaluator hook on (`events`): a `nonfinite`
event (a NaN / infinity on top of the value stack at the end of an evaluator step) is a violation
whatever the final outcome is.

NOT decided by TLC (documented in assumptions, host IEEE-754 / host strtod / host repr used instead):
correct rounding of arbitrary literals, shortest round-trip printing, arithmetic on random doubles."""
import concurrent.futures
import json
import math
import os
import time

import vlib
import num_util as nu
from vlib import Check, run_tlc, tlc_must_pass, run_cases

PROP = "C06"
EV = {"events": True, "max_events": 50000}

UNARY = {
    "pos": "+x", "neg": "-x", "floor": "std.floor(x)", "ceil": "std.ceil(x)", "round": "std.round(x)",
    "abs": "std.abs(x)", "sign": "std.sign(x)", "mantissa": "std.mantissa(x)", "exponent": "std.exponent(x)",
    "sqrt": "std.sqrt(x)", "exp": "std.exp(x)", "log": "std.log(x)", "log2": "std.log2(x)",
    "log10": "std.log10(x)", "sin": "std.sin(x)", "cos": "std.cos(x)", "tan": "std.tan(x)",
    "asin": "std.asin(x)", "acos": "std.acos(x)", "atan": "std.atan(x)", "deg2rad": "std.deg2rad(x)",
    "rad2deg": "std.rad2deg(x)", "bitnot": "~x",
}
BINARY = {
    "add": "x + y", "sub": "x - y", "mul": "x * y", "div": "x / y", "mod": "x % y",
    "modulo": "std.modulo(x, y)", "pow": "std.pow(x, y)", "atan2": "std.atan2(x, y)",
    "hypot": "std.hypot(x, y)", "max": "std.max(x, y)", "min": "std.min(x, y)",
    "band": "x & y", "bor": "x | y", "bxor": "x ^ y", "shl": "x << y", "shr": "x >> y",
}
TERNARY = {"clamp": "std.clamp(x, y, z)"}
ARRAY = {
    "sum": "std.sum(a)", "foldl": "std.foldl(function(p, q) p + q, a, 0)", "avg": "std.avg(a)",
    "minArray": "std.minArray(a)", "maxArray": "std.maxArray(a)", "sort": "std.sort(a)",
}
# operators that only select one of their operands (trivial unless they fail)
SELECTORS = {"pos", "max", "min", "clamp", "minArray", "maxArray", "sort"}
EVAL_ERR_KINDS = {"NumberOverflow", "NumberNan", "DivByZero", "NumberNotBitwiseSafe", "ShiftByNegative", "Other"}


class Runner:
    """Accumulates cases, runs them in chunks, hands (meta, result) to the comparator."""

    def __init__(self, chk, name):
        self.chk = chk
        self.name = name
        self.cases = []
        self.metas = []
        self.total = 0
        self.sampled = {}

    def add(self, src, meta, manifest="multi"):
        self.cases.append(dict({"k": "eval", "src": src, "manifest": manifest}, **EV))
        self.metas.append(meta)
        key = meta["kind"] + ":" + meta["r"]["c"]
        if key not in self.sampled and len(self.sampled) < 40:
            self.sampled[key] = {"src": src[:300], "specification": describe(meta["r"]), "expected": meta["x"]}
        if len(self.cases) >= 20000:
            self.flush()

    def flush(self):
        if not self.cases:
            return
        t0 = time.time()
        results = run_cases(self.cases, self.name, timeout_ms=10000)
        vlib.log(f"[C06] executed {len(self.cases)} cases in {time.time() - t0:.1f}s")
        for case, meta, res in zip(self.cases, self.metas, results):
            compare(self.chk, case, meta, res)
        self.total += len(self.cases)
        self.cases, self.metas = [], []


def bump(chk, *path):
    d = chk.extra.setdefault("classes", {})
    for p in path[:-1]:
        d = d.setdefault(p, {})
    d[path[-1]] = d.get(path[-1], 0) + 1


def hook_nonfinite(res):
    for e in res.get("events") or []:
        if e and e[0] == "nonfinite":
            return "infinity" if e[1] == 1 else "NaN"
    return None


def parse_ok(text, want_array=False):
    """Manifested text -> float | list of floats | ('nonfinite', text) | ('other', text)."""
    if want_array:
        t = text.strip()
        if not (t.startswith("[") and t.endswith("]")):
            return ("other", text)
        inner = t[1:-1].strip()
        out = []
        if inner:
            for piece in inner.split(","):
                v = nu.parse_number_text(piece)
                if isinstance(v, str):
                    return ("nonfinite", text)
                if v is None:
                    return ("other", text)
                out.append(v)
        return out
    v = nu.parse_number_text(text)
    if isinstance(v, str):
        return ("nonfinite", text)
    if v is None:
        return ("other", text)
    return v


def compare(chk, case, meta, res):
    """One executed case against its expectation.
    meta: kind, fn, x ('ok' | 'error' | 'any'), r (spec result or host-derived result), strict_err_stage."""
    fn = meta["fn"]
    kind = meta["kind"]
    r = meta["r"]
    x = meta["x"]
    src = case["src"]
    decided = x != "any"
    nontrivial = decided and (x == "error" or fn not in SELECTORS)
    chk.count(key=src + "|" + case["manifest"], nontrivial=nontrivial)
    bump(chk, kind, r["c"])
    payload = dict({k: v for k, v in case.items()}, expected=x, spec=r, fn=fn, kindname=kind)
    if not decided:
        chk.outside += 1

    def sig(cls):
        bump(chk, "disagreements", f"{kind}/{fn}/{cls}")
        return {"kind": kind, "fn": fn, "class": cls}

    if vlib.is_crash(res):
        chk.disagree(sig("crash"), f"`{src}` crashed: {vlib.crash_desc(res)}", payload)
        return
    hook = hook_nonfinite(res)
    if "ok" in res:
        val = res["ok"]
        if meta.get("parser"):
            got = meta["parser"](val)
        else:
            got = parse_ok(val, want_array=(r["c"] == "arr"))
        if isinstance(got, tuple) and got[0] == "nonfinite":
            chk.disagree(sig("nonfinite-value"),
                         f"`{src}` yields the non-finite number {val.strip()[:60]} as a value"
                         + (f" (specification: {r['c']}, an error is required)" if x == "error" else ""), payload)
            return
        if hook:
            chk.disagree(sig("nonfinite-value"),
                         f"`{src}`: evaluator hook saw {hook} on the value stack (result {val.strip()[:60]})", payload)
            return
        if x == "error":
            chk.disagree(sig("missing-error"),
                         f"`{src}` gives {val.strip()[:80]}, specification says {describe(r)}: an error is required", payload)
            return
        if isinstance(got, tuple):
            if decided and not meta.get("lenient_type"):
                chk.disagree(sig("wrong-value"), f"`{src}` gives {val.strip()[:80]}, expected a number ({describe(r)})", payload)
            return
        if not decided:
            return
        why = None if meta.get("parser") else value_mismatch(r, got)
        if why:
            shown = repr(got) if isinstance(got, float) else val.strip()[:80]
            chk.disagree(sig("wrong-value"), f"`{src}` gives {shown}, specification says {describe(r)}: {why}", payload)
            return
        if meta.get("post"):
            meta["post"](chk, case, meta, val, got, payload)
        return
    # error outcome
    err = res.get("err") or {}
    bump(chk, "error_kinds", f"{err.get('stage')}:{err.get('kind')}")
    if hook:
        chk.disagree(sig("nonfinite-value"),
                     f"`{src}`: evaluator hook saw {hook} on the value stack before the error {err.get('kind')}", payload)
        return
    if meta.get("strict_err_stage", True) and (err.get("stage") != "eval" or err.get("kind") not in EVAL_ERR_KINDS):
        raise vlib.ToolError(f"C06 generated a program that fails outside evaluation: {src!r}: {err}")
    if x == "ok":
        chk.disagree(sig("unexpected-error"),
                     f"`{src}` fails with {err.get('kind')} ({str(err.get('msg'))[:80]}), specification says {describe(r)}", payload)


def describe(r):
    c = r["c"]
    if c == "val":
        return f"value {nu.sym_name(r['v'])} = {nu.sym_to_float(r['v'])!r}"
    if c == "int":
        return f"value {r['n']}"
    if c == "fin":
        return f"a finite number below 2^{r['b']}"
    if c == "ovf":
        return "overflow (infinite IEEE result)"
    if c == "nan":
        return "NaN IEEE result"
    if c == "err":
        return f"error ({r.get('w')})"
    if c == "arr":
        return "array " + str([nu.sym_to_float(v) for v in r["a"]])
    if c == "float":
        return f"value {r['f']!r}"
    if c == "bool":
        return "true"
    if c == "printed":
        return "each number printed shortest, reading back as itself, the same by every route"
    return c


ZERO_SIGN = [0]   # informational: zero results whose sign differs from IEEE (not part of the property)


def value_mismatch(r, got):
    c = r["c"]
    if c == "arr":
        exp = [nu.sym_to_float(v) for v in r["a"]]
        return None if isinstance(got, list) and got == exp else f"expected {exp}"
    if isinstance(got, list):
        return "expected a number"
    if not math.isfinite(got):
        return "not finite"
    if c == "val":
        e = nu.sym_to_float(r["v"])
        if got == e == 0 and math.copysign(1.0, got) != math.copysign(1.0, e):
            ZERO_SIGN[0] += 1
        return None if got == e else f"expected {e!r}"
    if c == "int":
        return None if got == float(r["n"]) else f"expected {r['n']}"
    if c == "float":
        return None if got == r["f"] else f"expected {r['f']!r}"
    if c == "fin":
        if r["b"] < 1024 and not abs(got) < math.ldexp(1.0, r["b"]):
            return f"magnitude not below 2^{r['b']}"
        return None
    return None


# ---------------------------------------------------------------------------

def tlc_all(chk, tier):
    """Runs the model configurations concurrently (initial-state enumeration is single threaded)."""
    cfgs = [("un", "MC_Num_un.cfg", "unary operators/builtins x extended grid: laws + emission"),
            ("bin", "MC_Num_bin.cfg", "binary operators/builtins x extended grid^2: laws + emission"),
            ("tern", "MC_Num_tern.cfg", "clamp + triple laws (order, monotone overflow) on grid^3"),
            ("lit", "MC_Num_lit.cfg", "decimal literal shapes: class, value, point-shift laws + emission"),
            ("radix", "MC_Num_radix.cfg", "parseHex/parseOctal of base^k and base^k-1, k <= 350: laws + emission")]
    if tier == "quick":
        cfgs += [("arr", "MC_Num_arr2.cfg", "arrays of <= 2 grid values: sum/avg/min/max/sort laws + emission"),
                 ("arr4", "MC_Num_arr3s.cfg", "arrays of exactly 3 values of the 10-value overflow grid: laws + emission")]
    else:
        cfgs += [("arr", "MC_Num_arr3.cfg", "arrays of <= 3 grid values: sum/avg/min/max/sort laws + emission"),
                 ("arr4", "MC_Num_arr4.cfg", "arrays of exactly 4 values of the 10-value overflow grid: laws + emission")]
    cfgs.sort(key=lambda c: c[0] not in ("lit", "arr", "arr4"))     # longest first
    out = {}
    with concurrent.futures.ThreadPoolExecutor(max_workers=4) as ex:
        futs = {ex.submit(run_tlc, "MC_Num", cfg, "c06_" + key, workers=2, coverage=False): (key, label)
                for key, cfg, label in cfgs}
        for f in concurrent.futures.as_completed(futs):
            key, label = futs[f]
            out[key] = (f.result(), label)
    for key, cfg, label in cfgs:
        res, _ = out[key]
        tlc_must_pass(res, "Num " + label)
        chk.add_tlc(res, label)
    return {k: v[0] for k, v in out.items()}


def self_check(op, args, r, what):
    """The specification against host IEEE-754 arithmetic: a mismatch is a bug of the specification
    (tool error), never a verdict about the implementation."""
    h = nu.host(op, args)
    why = nu.spec_vs_host(r, h)
    if why:
        raise vlib.ToolError(f"spec/Num.tla disagrees with host IEEE-754 arithmetic on {what}: {why}")


def operand(v, r, styles):
    return nu.float_lit(nu.sym_to_float(v), r.choice(styles))


DOWN_ERR = {"sub": "v - v", "type": "std.type(v)", "lt": "v < 1", "str": '"" + v',
            "sum2": "std.sum([v, -v]) < 1", "elem": "[v, 1][0]"}


def bool_parser(text):
    return [text.strip()]


def bool_post(chk, case, meta, text, got, payload):
    if got[0] != "true":
        chk.disagree({"kind": meta["kind"], "fn": meta["fn"], "class": "wrong-value"},
                     f"`{case['src'][:200]}` gives {got[0][:40]}: a finite number minus itself must be 0", payload)


def add_with_downstream(run, r, p_down, prefix, tmpl, kind, op, e, manifest="multi"):
    """The case itself and, for a seeded share, programs that consume its result (the violation of this
    property is only visible downstream: arithmetic on the result, comparison, type test, text)."""
    run.add(f"{prefix}{tmpl}", {"kind": kind, "fn": op, "r": e["r"], "x": e["x"]}, manifest=manifest)
    c = e["r"]["c"]
    if c in ("ovf", "nan") and r.random() < p_down:
        for name, body in DOWN_ERR.items():
            run.add(f"{prefix}local v = {tmpl}; {body}",
                    {"kind": "down:" + name, "fn": op, "r": e["r"], "x": "error"})
    elif c in ("val", "int", "fin") and r.random() < p_down / 4:
        run.add(f"{prefix}local v = {tmpl}; v - v == 0",
                {"kind": "down:self-difference", "fn": op, "r": {"c": "bool"}, "x": "ok",
                 "parser": bool_parser, "post": bool_post})


def gen_operator_cases(chk, run, tlc, tier, r):
    styles = [0] if tier == "quick" else [0, 0, 1, 2, 3]
    variants = 1 if tier == "quick" else 2
    p_down = 0.2 if tier == "quick" else 1.0
    n_spec = 0
    for mode, table, names in (("un", UNARY, "x"), ("bin", BINARY, "xy"), ("tern", TERNARY, "xyz")):
        for c in tlc[mode].lines("CASE"):
            args = c["a"]
            fl = [nu.sym_to_float(v) for v in args]
            for op, tmpl in table.items():
                e = c["o"][op]
                self_check(op, fl, e["r"], f"{op}{tuple(fl)}")
                n_spec += 1
                for _ in range(variants):
                    binds = ", ".join(f"{n} = {operand(v, r, styles)}" for n, v in zip(names, args))
                    add_with_downstream(run, r, p_down, f"local {binds}; ", tmpl, mode, op, e)
    for key in ("arr", "arr4"):
        if key not in tlc:
            continue
        for c in tlc[key].lines("CASE"):
            arr = c["a"]
            fl = [nu.sym_to_float(v) for v in arr]
            for op, tmpl in ARRAY.items():
                e = c["o"][op]
                self_check(op, fl, e["r"], f"{op}({fl})")
                n_spec += 1
                lits = ", ".join(operand(v, r, styles) for v in arr)
                add_with_downstream(run, r, p_down, f"local a = [{lits}]; ", tmpl, "arr", op, e,
                                    manifest="single" if op == "sort" else "multi")
    chk.extra["spec_results_cross_checked_against_host_ieee"] = n_spec


# ---------------------------------------------------------------------------
# literals

def lit_post(chk, case, meta, text, got, payload):
    """Host-level checks on a finite literal (NOT decided by TLC): correct rounding and shortest printing."""
    want = meta["host_value"]
    if got != want:
        chk.disagree({"kind": "lit", "fn": meta["fn"], "class": "literal-misread"},
                     f"`{case['src'][:120]}` reads as {got!r}, the correctly rounded double of the text is {want!r}", payload)
        return
    if meta.get("check_print"):
        check_shortest(chk, case, meta, text, got, payload)


def check_shortest(chk, case, meta, text, got, payload):
    t = text.strip()
    mine = nu.sig_digits(t)
    ref = nu.sig_digits(repr(abs(got)))
    if got != 0 and len(mine) != len(ref):
        chk.disagree({"kind": meta["kind"], "fn": meta["fn"], "class": "not-shortest"},
                     f"`{case['src'][:120]}` prints {t[:60]} ({len(mine)} significant digits), the shortest decimal "
                     f"that reads back as the same double has {len(ref)} ({repr(got)})", payload)
    elif got != 0 and mine != ref:
        bump(chk, "print", "shortest_but_not_closest")


def gen_literal_cases(chk, run, tlc, tier, r):
    n = 0
    for c in tlc["lit"].lines("CASE"):
        l = c["l"]
        e = c["o"]["lit"]
        res, x = e["r"], e["x"]
        plain = nu.lit_text(l)
        # host strtod as a cross-check of the specification's class / value
        hv = float(plain)
        why = nu.spec_vs_host(res, hv)
        if why:
            raise vlib.ToolError(f"spec/Num.tla LitClass disagrees with host strtod on {plain[:80]}: {why}")
        n += 1
        neg = dict(res)
        if res["c"] == "int":
            neg = {"c": "int", "n": -res["n"]}
        elif res["c"] == "val":
            neg = {"c": "val", "v": dict(res["v"], s=-res["v"]["s"])}
        base = {"kind": "lit", "r": res, "x": x, "strict_err_stage": False}
        fin = x == "ok"
        contexts = ["plain", "neg", "spelled", "elem", "json", "yaml", "int"]
        if tier == "quick":
            contexts = ["plain", r.choice(["neg", "spelled", "elem"]), r.choice(["json", "yaml", "int"])]
        for ctx in contexts:
            meta = dict(base, fn="literal:" + ctx)
            if fin:
                meta.update(post=lit_post, host_value=hv, check_print=(ctx == "plain"))
            if ctx == "plain":
                run.add(plain, meta)
            elif ctx == "neg":
                meta.update(r=neg)
                if fin:
                    meta.update(host_value=-hv)
                run.add("-" + plain, meta)
            elif ctx == "spelled":
                t = nu.lit_text(l, r, us=True, style=r.randrange(8))
                run.add(t, meta)
            elif ctx == "elem":
                run.add(f"local f(v) = v; f([{plain}][0])", meta)
            elif ctx == "json":
                sgn = r.random() < 0.5
                if sgn:
                    meta.update(r=neg)
                    if fin:
                        meta.update(host_value=-hv)
                t = nu.lit_text(l, r, us=False, style=r.randrange(8) & 3)
                meta.update(strict_err_stage=True)
                run.add(f'std.parseJson("{"-" if sgn else ""}{t}")', meta)
            elif ctx == "yaml":
                # an overflowing YAML float may legitimately be rejected or kept as text; it must not
                # become an infinity
                meta.update(strict_err_stage=True, lenient_type=True)
                if x == "error":
                    meta.update(x="any", r={"c": "any"})
                run.add(f'std.parseYaml("{plain}")', meta)
            elif ctx == "int":
                if l["hasf"] or l["hase"]:
                    continue
                meta.update(strict_err_stage=True)
                run.add(f'std.parseInt("{plain}")', meta)
    chk.extra["literal_classes_cross_checked_against_host_strtod"] = n


def gen_radix_cases(chk, run, tlc, tier, r):
    """std.parseHex / std.parseOctal (and the YAML 0x / 0o scalars) of base^k and base^k - 1, k = 1..350."""
    for c in tlc["radix"].lines("CASE"):
        bits, k = c["bits"], c["k"]
        fn = "parseHex" if bits == 4 else "parseOctal"
        top = "f" if bits == 4 else "7"
        shapes = [("one", "1" + "0" * k), ("max", top * k)]
        if "tie" in c["o"]:
            # 54 one bits, then zeros: exactly half-way, the even neighbour is the upper one
            shapes.append(("tie", ("f" * 13 + "c" + "0" * (k - 14)) if bits == 4 else ("1" + "7" * 17 + "6" + "0" * (k - 19))))
        for shape, text in shapes:
            assert len(text) == k + (shape == "one")
            e = c["o"][shape]
            try:
                hv = float(int(text, 1 << bits))
            except OverflowError:
                hv = math.inf
            why = nu.spec_vs_host(e["r"], hv)
            if why:
                raise vlib.ToolError(f"spec/Num.tla Radix{shape} disagrees with host integer conversion on {fn} {text[:40]}: {why}")
            spell = text
            if r.random() < 0.3:
                spell = "0" * r.randrange(1, 4) + spell
            if r.random() < 0.3:
                spell = spell.upper()
            meta = {"kind": "radix", "fn": fn, "r": e["r"], "x": e["x"]}
            if e["x"] == "ok":
                meta.update(post=lit_post, host_value=hv)
            run.add(f'std.{fn}("{spell}")', meta)
            if tier == "thorough" or r.random() < 0.3:
                ym = dict(meta, fn="parseYaml:" + ("0x" if bits == 4 else "0o"), lenient_type=True)
                if e["x"] == "error":
                    ym.update(x="any", r={"c": "any"})
                run.add(f'std.parseYaml("{"0x" if bits == 4 else "0o"}{text}")', ym)


# ---------------------------------------------------------------------------
# host-oracle part: random doubles (reading, printing, arithmetic)

def split_json_numbers(text):
    """Parses a manifested JSON document keeping the number texts: numbers become ('num', text)."""
    try:
        return json.loads(text, parse_float=lambda s: ("num", s), parse_int=lambda s: ("num", s),
                          parse_constant=lambda s: ("nonfinite", s))
    except Exception:
        return None


def print_parser(text):
    doc = split_json_numbers(text)
    if doc is None:
        return ("nonfinite", text) if any(w in text for w in ("inf", "NaN", "nan")) else ("other", text)
    return [doc]


def print_post(chk, case, meta, text, got, payload):
    doc = got[0]
    fs = meta["floats"]
    if not isinstance(doc, list) or len(doc) != len(fs):
        chk.disagree({"kind": "print", "fn": "manifest", "class": "wrong-value"}, f"`{case['src'][:100]}` -> {text[:100]}", payload)
        return
    for idx, (f, item) in enumerate(zip(fs, doc)):
        num, s1, s2, s3 = item
        t = num[1] if isinstance(num, (list, tuple)) and num[0] == "num" else None
        here = dict(payload, number=repr(f))
        if t is None:
            chk.disagree({"kind": "print", "fn": "manifest", "class": "nonfinite-value"}, f"{f!r} is manifested as {num}", here)
            continue
        bump(chk, "print", "numbers")
        if float(t) != f:
            chk.disagree({"kind": "print", "fn": "manifest", "class": "literal-misread"},
                         f"the literal {(meta['lits'][idx] if 'lits' in meta else nu.float_lit(f, meta['style']))[:80]} comes back as {t[:60]} = {float(t)!r}, expected {f!r}", here)
            continue
        for fn, s in (("toString", s1), ("string-concat", s2), ("manifestJsonMinified", s3)):
            if s != t:
                chk.disagree({"kind": "print", "fn": fn, "class": "inconsistent-text"},
                             f"{f!r} is manifested as {t[:60]} but {fn} gives {str(s)[:60]}", here)
        if f != 0:
            mine, ref = nu.sig_digits(t), nu.sig_digits(repr(abs(f)))
            if len(mine) != len(ref):
                chk.disagree({"kind": "print", "fn": "manifest", "class": "not-shortest"},
                             f"{f!r} is printed as {t[:60]} ({len(mine)} significant digits); shortest has {len(ref)}", here)
            elif mine != ref:
                bump(chk, "print", "shortest_but_not_closest")
        elif (t.startswith("-")) != (math.copysign(1.0, f) < 0):
            bump(chk, "print", "zero_sign_differs")


def gen_print_cases(chk, run, tier, r, grid):
    n = 3000 if tier == "quick" else 60000
    fs = list(grid)
    for i in range(n):
        fs.append(nu.random_double(r) if i % 2 else nu.decimalish_double(r))
    batch = 20
    for i in range(0, len(fs), batch):
        part = [f for f in fs[i:i + batch] if math.isfinite(f)]
        style = r.choice([0, 0, 1, 2, 3])
        items = ", ".join(f"local x = {nu.float_lit(f, style)}; [x, std.toString(x), \"\" + x, std.manifestJsonMinified(x)]"
                          for f in part)
        run.add(f"[{items}]", {"kind": "print", "fn": "manifest", "r": {"c": "printed"}, "x": "ok", "floats": part,
                               "style": style, "parser": print_parser, "post": print_post}, manifest="single")


def gen_midpoint_cases(chk, run, tier, r, grid):
    """Long literals (20 .. 1200 significant digits) a hair above / below / exactly at the midpoint
    of two adjacent doubles: the only inputs on which a reader that keeps a bounded number of digits,
    or rounds twice, differs from the correctly rounded one.  Expected value by exact rational
    arithmetic (ties to even)."""
    n = 1500 if tier == "quick" else 30000
    fs = [abs(f) for f in grid if math.isfinite(f)] + [0.0, 5e-324, 1.0, 2.0 ** 53, 2.0 ** 63, 0.1]
    for i in range(n):
        fs.append(abs(nu.random_double(r) if i % 2 else nu.decimalish_double(r)))
    items, floats, lits = [], [], []

    def flush():
        if items:
            run.add("[" + ", ".join(items) + "]",
                    {"kind": "print", "fn": "literal-midpoint", "r": {"c": "printed"}, "x": "ok", "floats": list(floats),
                     "lits": list(lits), "style": 2, "parser": print_parser, "post": print_post}, manifest="single")
            items.clear(), floats.clear(), lits.clear()

    for a in fs:
        if not math.isfinite(math.nextafter(a, math.inf)):
            continue
        side = r.choice([1, 1, -1, -1, 0])
        t, want = nu.midpoint_literal(a, side, r)
        neg = r.random() < 0.3
        lit = "(-" + t + ")" if neg else t
        items.append(f"local x = {lit}; [x, std.toString(x), \"\" + x, std.manifestJsonMinified(x)]")
        floats.append(-want if neg else want)
        lits.append(lit)
        if len(items) >= 10:
            flush()
    flush()


HOST_BIN = {"add": "x + y", "sub": "x - y", "mul": "x * y", "div": "x / y", "mod": "x % y",
            "pow": "std.pow(x, y)", "hypot": "std.hypot(x, y)", "max": "std.max(x, y)"}
HOST_UN = {"sqrt": "std.sqrt(x)", "exp": "std.exp(x)", "log": "std.log(x)", "floor": "std.floor(x)",
           "ceil": "std.ceil(x)", "round": "std.round(x)", "neg": "-x", "abs": "std.abs(x)",
           "mantissa": "std.mantissa(x)", "exponent": "std.exponent(x)", "rad2deg": "std.rad2deg(x)"}
EXACT_OPS = {"add", "sub", "mul", "div", "mod", "sqrt", "floor", "ceil", "round", "neg", "abs", "max",
             "mantissa", "exponent", "sum", "foldl", "avg"}


def host_result(op, args):
    """Host IEEE result as a pseudo specification result (class 'float' = exact value expected)."""
    h = nu.host(op, args)
    if h is None:
        return {"c": "any"}, "any"
    if isinstance(h, tuple):
        return {"c": "err", "w": h[1]}, "error"
    if math.isnan(h):
        return {"c": "nan"}, "error"
    if math.isinf(h):
        return {"c": "ovf"}, "error"
    if op in EXACT_OPS:
        return {"c": "float", "f": h}, "ok"
    # libm functions: finite, but the last bit is the library's business; close to the overflow
    # threshold the class itself is not decided
    if abs(h) > 0.999 * nu.MAXF:
        return {"c": "any"}, "any"
    return {"c": "fin", "b": 1024}, "ok"


def gen_random_arith(chk, run, tier, r):
    n = 1500 if tier == "quick" else 40000
    for i in range(n):
        x, y = nu.random_double(r, big=0.35), nu.random_double(r, big=0.35)
        if i % 7 == 0:
            y = x if i % 2 else -x
        for op, tmpl in HOST_BIN.items():
            if tier == "quick" and r.random() < 0.5:
                continue
            res, exp = host_result(op, [x, y])
            run.add(f"local x = {nu.float_lit(x)}, y = {nu.float_lit(y)}; {tmpl}",
                    {"kind": "random", "fn": op, "r": res, "x": exp})
        op = r.choice(sorted(HOST_UN))
        res, exp = host_result(op, [x])
        run.add(f"local x = {nu.float_lit(x)}; {HOST_UN[op]}", {"kind": "random", "fn": op, "r": res, "x": exp})
        if i % 3 == 0:
            k = r.randrange(2, 7)
            arr = [nu.random_double(r, big=0.5) for _ in range(k)]
            if r.random() < 0.3:
                arr[r.randrange(k)] = -arr[0]
            op = r.choice(["sum", "avg", "foldl"])
            res, exp = host_result(op, arr)
            lits = ", ".join(nu.float_lit(v) for v in arr)
            run.add(f"local a = [{lits}]; {ARRAY[op]}", {"kind": "random", "fn": op, "r": res, "x": exp})


# literals next to the thresholds whose digits are outside {0,1,9}: class by host strtod (assumption)
BOUNDARY_LITS = [
    "1.7976931348623157e308", "1.7976931348623158e308", "1.797693134862315807e308", "1.797693134862315808e308",
    "179769313486231570814527423731704356798070567525844996598917476803157260780028538760589558632766878171540458953"
    "514382464234321326889464182768467546703537516986049910576551282076245490090389328944075868508455133942304583236"
    "903222948165808559332123348274797826204144723168738177180919299881250404026184124858368",
    "179769313486231580793728971405303415079934132710037826936173778980444968292764750946649017977587207096330286416"
    "692887910946555547851940402630657488671505820681908902000708383676273854845817711531764475730270069855571366959"
    "622842914819860834936475292719074168444365510704342711559699508093042880177904174497791",
    "179769313486231580793728971405303415079934132710037826936173778980444968292764750946649017977587207096330286416"
    "692887910946555547851940402630657488671505820681908902000708383676273854845817711531764475730270069855571366959"
    "622842914819860834936475292719074168444365510704342711559699508093042880177904174497792",
    "2.4703282292062327e-324", "2.4703282292062328e-324", "2.47032822920623272e-324", "4.9406564584124654e-324",
    "2.2250738585072014e-308", "2.2250738585072011e-308", "2.225073858507201136057409796709131975934819546351645648"
    "0237091958826652e-308", "9007199254740993", "9007199254740992.5", "9007199254740993.0000000000000001",
    "0.1", "0.2", "0.3", "1.1", "2.5", "123456789.123456789", "5e-324", "3e-324", "7.4e-324", "7.5e-324",
    "8.98846567431158e307", "1e23", "8.41e21", "9.5367431640625e-7", "1.00000000000000011102230246251565404236316680908203125",
    "1.00000000000000011102230246251565404236316680908203124", "1.00000000000000011102230246251565404236316680908203126",
    "0.500000000000000166533453693773481063544750213623046875", "1e309", "1.8e308", "0.17976931348623159e309",
]


def gen_boundary_literals(chk, run, r):
    for t in BOUNDARY_LITS:
        hv = float(t)
        if math.isinf(hv):
            res, x = {"c": "ovf"}, "error"
        else:
            res, x = {"c": "float", "f": hv}, "ok"
        for ctx, src in (("plain", t), ("json", f'std.parseJson("{t}")')):
            meta = {"kind": "lit", "fn": "boundary:" + ctx, "r": res, "x": x, "strict_err_stage": ctx == "json"}
            if x == "ok":
                meta.update(post=lit_post, host_value=hv, check_print=True)
            run.add(src, meta)


# ---------------------------------------------------------------------------

def run(tier, seed):
    chk = Check(PROP, tier, seed)
    chk.rule = ("TLC-enumerated: (operator|builtin) x extended grid^arity (46 boundary doubles; 20-value grid for "
                "clamp and for arrays: all of length <= 2 (quick) / <= 3 (thorough) plus length 3 / 4 over a 10-value "
                "overflow grid), parseHex/parseOctal digit strings, literal shapes over digits {0,1,9}; plus seeded random doubles "
                "(host-IEEE oracle). distinct = program text; non-trivial = the specification decides the case and "
                "it is not a pure operand selection (+x, max, min, clamp, minArray, maxArray, sort) that succeeds")
    chk.assumptions = [
        "spec/Num.tla decides result classes symbolically on D = {+-0, +-2^e, +-(2^53-1)2^e}; every emitted class is "
        "additionally cross-checked against host IEEE-754 arithmetic (Python floats, libm) and a mismatch is a tool "
        "error, not a verdict",
        "NOT decided by TLC: correct rounding of arbitrary decimal literals (host strtod = Python float()), shortest "
        "round-trip printing (host repr digit count), arithmetic on random doubles (host IEEE double arithmetic; libm "
        "functions by class only)",
        "zeros are compared by value (0 == -0): the sign of a zero result is not part of this property",
        "operands are written as decimal literals (shortest / 17 digits / exact expansion / 25 digits)",
        "midpoint literals (20..1200 significant digits just above / below / at the midpoint of adjacent doubles, "
        "positional or scientific, with digit separators): expected double by exact rational arithmetic, ties to even",
    ]
    vlib.build_harness()
    t0 = time.time()
    tlc = tlc_all(chk, tier)
    vlib.log(f"[C06] TLC: {len(tlc)} configurations in {time.time() - t0:.1f}s")
    r = vlib.rng(seed, "c06")
    run_ = Runner(chk, "c06")
    gen_operator_cases(chk, run_, tlc, tier, r)
    gen_literal_cases(chk, run_, tlc, tier, r)
    gen_radix_cases(chk, run_, tlc, tier, r)
    gen_boundary_literals(chk, run_, r)
    grid = sorted({nu.sym_to_float(v) for c in tlc["un"].lines("CASE") for v in c["a"]}, key=lambda f: (abs(f), f))
    gen_print_cases(chk, run_, tier, r, grid)
    gen_midpoint_cases(chk, run_, tier, r, grid)
    gen_random_arith(chk, run_, tier, r)
    run_.flush()
    chk.traces_validated = run_.total
    chk.exhaustive = True   # the TLC universes are enumerated completely; the random part is sampling on top
    chk.extra["zero_results_with_other_sign_than_ieee"] = ZERO_SIGN[0]
    chk.extra["hook"] = "every program ran with events on; a ['nonfinite', class] event is a violation"
    order = ["bin:ovf", "arr:ovf", "un:nan", "lit:ovf", "bin:val", "lit:int", "print:printed", "random:float"]
    for k in order + sorted(run_.sampled):
        if k in run_.sampled:
            chk.sample(run_.sampled.pop(k), limit=10)
    return chk.finish()


def replay(path):
    with open(path) as f:
        rp = json.load(f)
    vlib.build_harness()
    case = {k: v for k, v in rp["case"].items() if k in ("k", "src", "manifest", "events", "max_events")}
    res = run_cases([case], "c06_replay")[0]
    hook = hook_nonfinite(res)
    res.pop("events", None)
    print(json.dumps({"src": case["src"], "expected": rp["case"].get("expected"), "specification": rp["case"].get("spec"),
                      "result": res, "hook_nonfinite": hook}, indent=1))
    return 0
