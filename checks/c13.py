"""C13 - imports resolve deterministically, load once and deliver exact content.

spec/Imports.tla is the operational specification: POSIX path resolution over a modelled
tree, the search order of the property (importing file's directory, then -J right-most
first, absolute paths bypass the search), a small evaluator (file bodies, manifestation,
`.lazy` selections, strict bodies) with the import cache keyed by file identity, and the
content functions (importstr = lossy UTF-8 text, importbin = bytes).  A file is an
"importing file" whether it is the program, was imported, or was handed over with
--ext-code-file / --tla-code-file: the options are bound first (the file is loaded by its
command-line path, not evaluated), its value is computed at the first demand by
std.extVar / the top-level parameter / an import of the same file, once.

 (a) TLC explores every behaviour of every scenario of MC_Imports (trees x -J orders x
     importer x spelling x kind; special entries; absolute invocations; the same file
     reached two or three times; import cycles; binary content; code files given on the
     command line) and checks the invariants (load once, cache keyed by identity,
     thisFile = first path, resolution independent of history, error names the import
     statement / the option, options bound before anything is evaluated) and the laws of
     Resolve / Utf8Lossy.
 (b) every finished behaviour is emitted as a case; the tree is materialised under
     work/c13/tmp<pid>/ and the real binary is run on it; exit status, manifested value
     (which file was picked, std.thisFile, text / bytes), the number of `TRACE: T<tag>`
     lines per file (= evaluations) and the reported error site are compared."""
import concurrent.futures
import json
import os
import shutil

import vlib
import imports_util as iu
from vlib import Check, run_tlc, tlc_must_pass

PROP = "C13"
BATCH = 50
QUOTA = {"search": 420, "special": 300, "invoc": 100, "virt": 420, "pairs": 200, "cycles": 120, "data": 60, "laws": 48,
         "codefile": 700}
ACTIONS = ("BindCodeFile", "StartMain", "ForceStmt", "FinishLoad", "DemandStmt", "FinishManifest", "Import",
           "Demand", "FollowLazy", "DeliverForced", "DeliverManifest", "ManifestCycle")


def case_key(c):
    return json.dumps([c["fam"], c["fs"], c["jp"], c["main"], c.get("opts", [])], sort_keys=True)


def canon(c):
    """TLC prints sets in an order that depends on the worker interleaving: fix it."""
    for k in ("fs", "loads", "thisFile", "res"):
        c[k] = sorted(c[k], key=lambda x: x["p"])
    return c


def nontrivial(c):
    if c["status"] != "ok" or c["hits"] > 0 or c["skipped"] > 0 or c.get("opts"):
        return True
    for x in c["fs"]:
        e = x["v"]
        if e["t"] == "link" or any(b >= 128 for b in e["bytes"]):
            return True
    return False


def codefile_classes(c):
    """Which situations of the code-file route a scenario exercises (vacuity accounting)."""
    out = set()
    fs = {tuple(x["p"]): x["v"] for x in c["fs"]}
    loads = {tuple(x["p"]): x["v"] for x in c["loads"]}
    bound = {}
    for b in c["binds"]:
        bound.setdefault(tuple(b["n"]), []).append(b["i"])
    if c["status"] == "error" and not c["err"]["file"]:
        out.add("option_missing" if c["err"]["class"] == "notfound" else "option_is_directory")
    main = tuple(c["main"][1:] if c["main"][0] == "/" else c["main"])
    for n, idx in bound.items():
        if n == main:
            out.add("is_main_file")
            continue
        if len(idx) > 1:
            out.add("two_options_one_file")
        if c["status"] == "ok" and loads.get(n) == 0:
            out.add("never_evaluated")
        if loads.get(n) == 1:
            if any(s["kind"] in ("import", "str", "bin") and len(s["sp"]) <= 2 and s["sp"][0] != "/" for s in fs[n]["eager"]):
                out.add("sibling_import_inside")
            demanded = any(s["kind"] in ("ext", "tla") for x in fs.values() for s in x["eager"] + x["lazy"])
            imported = any(s["kind"] == "import" and s["sp"][-1] == n[-1]
                           for x in fs.values() for s in x["eager"] + x["lazy"])
            if demanded and imported and c["status"] == "ok":
                out.add("demanded_and_imported")
    return out


def run_one(args):
    case, root = args
    tree = iu.Tree(case, root)
    try:
        tree.build()
        out = tree.run(vlib.CLI_BIN)
        bad = iu.compare(tree, out)
        cmd = tree.command("rsjsonnet")
    finally:
        tree.cleanup()
    return bad, out, cmd


def describe(c):
    files = []
    for x in c["fs"]:
        e = x["v"]
        p = "/".join(x["p"])
        if e["t"] == "file" and e["code"]:
            st = "; ".join(f"{s['kind']} {'/'.join(s['sp'])}" + ".lazy" * s["chain"] for s in e["eager"])
            if p == "/".join(c["main"]).lstrip("/") and any(o["route"] == "tla" for o in c.get("opts", [])):
                st = "function(" + ", ".join(o["var"] for o in c["opts"] if o["route"] == "tla") + ") " + st
            lz = "; ".join(f"lazy {s['kind']} {'/'.join(s['sp'])}" for s in e["lazy"])
            files.append(f"{p}[T{e['tag']}{' strict' if e['strict'] else ''}: {st}{' | ' + lz if lz else ''}]")
        elif e["t"] == "file":
            files.append(f"{p}[data {e['bytes']}]")
        elif e["t"] == "link":
            files.append(f"{p} -> {'/'.join(e['target'])}")
        elif p in ("main/a.libsonnet", "main/sub/a.libsonnet", "L1/a.libsonnet", "L2/a.libsonnet"):
            files.append(p + "/ (directory)")
    jp = " ".join("-J " + "/".join(j) for j in c["jp"])
    for o in c.get("opts", []):
        jp += f" {iu.OPT_FLAG[o['route']]} {o['var']}={'/'.join(o['path'])}"
    main = "/".join(c["main"])
    if c["fam"] == "virt":      # the text of the main file is the program (see imports_util.Tree.command)
        main = ("- < " if (len(c["jp"]) + len(c["fs"])) % 2 == 0 else "-e <text of> ") + main
    return f"{c['fam']}: rsjsonnet {jp} {main} | " + ", ".join(files)


def run(tier, seed):
    chk = Check(PROP, tier, seed)
    chk.rule = ("one case = one scenario of MC_Imports (tree, -J list, main path, code-file options, statements); "
                "distinct = (family, tree, -J, main, options); non-trivial = the run fails, or a resolution passed "
                "over at least one candidate, or a request was answered from the cache, or the tree has a symbolic "
                "link, or the content has non-ASCII bytes, or a code file is given on the command line")
    chk.assumptions = [
        "`.` components and repeated separators are not significant when std.thisFile / reported paths are compared",
        "generated library files are ASCII: `std.trace(\"T<tag>\", {tag, thisFile, eager: [imports], lazy:: import})`; "
        "one TRACE line on stderr = one evaluation of the file",
        "the process runs as root: an unreadable file is represented by a directory / a dangling link",
        "family virt: the main program is given as text with -e or on standard input (the scenario decides which); it "
        "has no directory (its relative imports are answered by -J alone), std.thisFile is <cmdline> / <stdin>, and "
        "reaching the file that holds its text by an import is outside the decided domain",
        "a data file evaluated with `import` is outside the decided domain",
        "for a failing run only `at most once, and only files the specification had started to load` is required of the TRACE lines",
        "code files: --ext-code-file options are bound before --tla-code-file options, each kind in command-line order "
        "(so, of two options naming one file, that one's spelling is std.thisFile); option names are distinct; with "
        "top-level arguments the main file is `function(<names>) <the same body>` and importing it again is outside "
        "the decided domain; a code-file option that cannot be read is reported on stderr with the path as spelled, "
        "exit status 1, no output and no evaluation at all",
    ]
    vlib.build_cli()
    main_cfg = "MC_Imports_full.cfg" if tier == "thorough" else f"MC_Imports_q{seed % 4}.cfg"
    cont_cfg = "MC_Imports_content4.cfg" if tier == "thorough" else "MC_Imports_content3.cfg"
    with concurrent.futures.ThreadPoolExecutor(max_workers=2) as ex:
        f1 = ex.submit(run_tlc, "MC_Imports", main_cfg, "c13_main", workers=3, timeout=3000)
        f2 = ex.submit(run_tlc, "MC_Imports", cont_cfg, "c13_content", workers=1, timeout=3000)
        res_main, res_cont = f1.result(), f2.result()
    tlc_must_pass(res_main, "Imports model " + main_cfg)
    tlc_must_pass(res_cont, "Imports content model " + cont_cfg)
    chk.add_tlc(res_main, f"Imports machine, all behaviours of {main_cfg}: invariants + Resolve laws + emission")
    chk.add_tlc(res_cont, f"Imports machine on every byte string of {cont_cfg}: invariants + UTF-8 laws + emission")
    for act in ACTIONS:
        if act not in res_main.coverage or res_main.coverage[act][1] == 0:
            raise vlib.ToolError(f"vacuity: action {act} never taken in {main_cfg} (coverage {res_main.coverage})")

    by_fam = {}
    for c in res_main.lines("CASE"):
        by_fam.setdefault(c["fam"], []).append(canon(c))
    content = [canon(c) for c in res_cont.lines("CASE")]
    emitted = {f: len(v) for f, v in by_fam.items()}
    emitted["content"] = len(content)
    selected = []
    for fam in sorted(by_fam):
        lst = sorted(by_fam[fam], key=case_key)
        if tier == "quick" and len(lst) > QUOTA.get(fam, 100):
            r = vlib.rng(seed, "c13-" + fam)
            lst = r.sample(lst, QUOTA.get(fam, 100))
        selected += lst
    content.sort(key=case_key)
    vlib.rng(seed, "c13-content").shuffle(content)
    batches = [content[i:i + BATCH] for i in range(0, len(content), BATCH)]

    classes = {}
    for c in selected + content:
        k = c["status"] + (":" + c["err"]["class"] if c["status"] != "ok" else "")
        classes[k] = classes.get(k, 0) + 1
    for need in ("ok", "error:notfound", "error:isdir", "error:cycle"):
        if not classes.get(need):
            raise vlib.ToolError(f"vacuity: no scenario with outcome {need}")
    if not any(c["hits"] > 0 for c in selected) or not any(c["skipped"] > 0 for c in selected):
        raise vlib.ToolError("vacuity: no cache hit / no search that passes over a candidate")
    cf_classes = {k: 0 for k in ("option_missing", "option_is_directory", "never_evaluated", "demanded_and_imported",
                                 "two_options_one_file", "sibling_import_inside", "is_main_file")}
    for c in selected:
        if c["fam"] == "codefile":
            for k in codefile_classes(c):
                cf_classes[k] += 1
    for k, n in cf_classes.items():
        if n == 0:
            raise vlib.ToolError(f"vacuity: no codefile scenario of class {k}")

    tmp = vlib.workdir("c13", f"tmp{os.getpid()}")
    jobs = [(c, os.path.join(tmp, f"case{i}")) for i, c in enumerate(selected)]
    jobs += [(iu.merge_content(b), os.path.join(tmp, f"batch{i}")) for i, b in enumerate(batches)]
    try:
        with concurrent.futures.ThreadPoolExecutor(max_workers=12) as ex:
            results = list(ex.map(run_one, jobs))
        # attribute a failing content batch to its members
        redo = []
        for (case, _), (bad, _, _), b in zip(jobs[len(selected):], results[len(selected):], batches):
            if bad:
                redo += b
        redo_jobs = [(c, os.path.join(tmp, f"redo{i}")) for i, c in enumerate(redo)]
        with concurrent.futures.ThreadPoolExecutor(max_workers=12) as ex:
            redo_results = list(ex.map(run_one, redo_jobs))
    finally:
        shutil.rmtree(tmp, ignore_errors=True)

    replayed = 0
    ill_formed = 0

    def account(case, result):
        nonlocal replayed
        bad, out, cmd = result
        if case["status"] == "outside":
            chk.outside += 1
            return
        replayed += 1
        chk.count(key=case_key(case), nontrivial=nontrivial(case))
        kinds = sorted({s["kind"] for x in case["fs"] for s in x["v"]["eager"] + x["v"]["lazy"]})
        for cls, text in bad:
            chk.disagree({"kind": "import", "class": cls, "fam": case["fam"], "importkinds": "+".join(kinds),
                          "expected": case["status"] + ":" + case["err"]["class"]},
                         f"{describe(case)} => {text}", case)

    for (case, _), result in zip(jobs[:len(selected)], results[:len(selected)]):
        account(case, result)
    for b, (_, result) in zip(batches, zip(jobs[len(selected):], results[len(selected):])):
        if not result[0]:
            for c in b:
                account(c, ([], None, None))
    for (case, _), result in zip(redo_jobs, redo_results):
        account(case, result)
    for c in content:
        data = [x["v"]["bytes"] for x in c["fs"] if x["v"]["t"] == "file" and not x["v"]["code"]][0]
        try:
            bytes(data).decode("utf-8")
        except UnicodeDecodeError:
            ill_formed += 1
    if ill_formed == 0 or ill_formed == len(content):
        raise vlib.ToolError("vacuity: content family lacks well-formed or ill-formed byte strings")

    chk.traces_validated = replayed
    chk.exhaustive = (tier == "thorough")
    chk.extra["scenarios_emitted_by_family"] = emitted
    chk.extra["scenarios_replayed_by_family"] = {
        **{f: sum(1 for c in selected if c["fam"] == f) for f in sorted(by_fam)}, "content": len(content)}
    chk.extra["cli_runs"] = len(jobs) + len(redo_jobs)
    chk.extra["outcome_classes"] = classes
    chk.extra["with_cache_hit"] = sum(1 for c in selected if c["hits"] > 0)
    chk.extra["with_skipped_candidate"] = sum(1 for c in selected if c["skipped"] > 0)
    chk.extra["codefile_classes"] = cf_classes
    chk.extra["content_ill_formed"] = ill_formed
    chk.extra["content_well_formed"] = len(content) - ill_formed
    chk.extra["model_cfgs"] = [main_cfg, cont_cfg]
    picks = [c for c in selected if c["fam"] == "search" and c["status"] == "ok" and c["skipped"] > 0][:1]
    picks += [c for c in selected if c["fam"] == "pairs" and c["hits"] > 0][:1]
    picks += [c for c in selected if c["fam"] == "special" and c["err"]["class"] == "isdir"][:1]
    picks += [c for c in selected if c["fam"] == "cycles" and c["err"]["class"] == "cycle"][:1]
    picks += [c for c in selected if c["fam"] == "codefile" and "demanded_and_imported" in codefile_classes(c)][:1]
    picks += [c for c in selected if c["fam"] == "codefile" and "option_missing" in codefile_classes(c)][:1]
    for c in picks:
        chk.sample({"scenario": describe(c), "expected": c["status"] + (":" + c["err"]["class"] if c["err"]["class"] else ""),
                    "loads": {"/".join(x["p"]): x["v"] for x in c["loads"]},
                    "thisFile": {"/".join(x["p"]): "/".join(x["v"]) for x in c["thisFile"]}})
    if content:
        c = next((c for c in content if any(it["t"] == "str" and 65533 in it["data"] for x in c["res"] for it in x["v"])), content[0])
        chk.sample({"scenario": describe(c), "expected_importstr_code_points":
                    [it["data"] for x in c["res"] for it in x["v"] if it["t"] == "str"][0]})
    return chk.finish()


def replay(path):
    with open(path) as f:
        rp = json.load(f)
    vlib.build_cli()
    case = rp["case"]
    root = os.path.join(vlib.workdir("c13", f"replay{os.getpid()}"), "case")
    tree = iu.Tree(case, root)
    try:
        tree.build()
        out = tree.run(vlib.CLI_BIN)
        bad = iu.compare(tree, out)
        print(json.dumps({"scenario": describe(case), "command": tree.command("rsjsonnet"),
                          "expected": {"status": case["status"], "err": case["err"], "loads": case["loads"],
                                       "thisFile": case["thisFile"], "res": case["res"]},
                          "observed": out, "disagreements": bad}, indent=1))
    finally:
        shutil.rmtree(os.path.dirname(root), ignore_errors=True)
    return 1 if bad else 0
