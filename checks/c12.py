"""C12 - the command-line tool's exit status, streams and output modes form one contract.

spec/Cli.tla is the state machine of ONE run (ParseArgs -> ReadInput -> Load ->
BindExt -> BindTla -> Eval -> Call -> Manifest(mode) -> Write), every failure a
separately enabled action.  TLC checks the contract (exit 0 => every phase
succeeded and the output is complete; exit != 0 => stdout empty, no -o file,
stderr non-empty; usage errors <=> 2; nothing is written before the output is
built) over every configuration of MC_Cli, checks the view laws (-S / -y / -m /
--no-trailing-newline are consistent views of one value; lazily unused code has no
influence; TLAs bind by name) on the reference functions, and prints every
terminal state as a CASE.  Each configuration is then replayed against the real
binary in a private scratch directory; the observed exit status, stdout bytes,
stderr non-emptiness and created files must be one of the terminal behaviours the
machine has for that configuration.

quick:    the seeded 1/5 lattice sample of the universe (MC_Cli_sample.cfg)
thorough: the whole universe (MC_Cli_all.cfg)
"""
import concurrent.futures
import json
import os
import shutil

import vlib
import c12_util as cu
from vlib import Check, run_tlc, tlc_must_pass

PROP = "C12"
RATE = 5

# Every failure action of Cli.tla has its own cause text; TLC's -coverage cannot be used on this
# model (its cost-model construction inlines the nested reference operators and exhausts the heap),
# so vacuity is established from the emitted terminal states instead.
CAUSES = ["usage", "input unreadable", "input does not load", "external variable cannot be bound",
          "external code does not parse (eager)", "top-level argument cannot be bound",
          "top-level code does not parse (eager)", "evaluation fails",
          "top-level arguments but not a function", "top-level arguments do not match the parameters",
          "the call fails", "manifestation fails", "-m needs an object", "field file cannot be written",
          "manifestation of a field fails", "output file cannot be written", "stdout cannot be written"]

CFG_KEYS = ("input", "mode", "out", "ntn", "prog", "ext", "fault")


def cfg_key(c):
    return json.dumps([c[k] for k in CFG_KEYS])


def group_cases(res):
    """configuration key -> (configuration record, list of allowed outcomes)."""
    groups = {}
    for c in res.lines("CASE"):
        k = cfg_key(c)
        g = groups.setdefault(k, ({x: c[x] for x in CFG_KEYS + ("use", "args")}, []))
        o = {x: c[x] for x in ("exit", "stdout", "stderr", "files", "why", "nphases")}
        if o not in g[1]:
            g[1].append(o)
    return groups


def judge(cfg, allowed, run, obs):
    """Returns (index of the matching allowed outcome, None) or (None, (class, text, closest outcome))."""
    crash = cu.crash_of(obs)
    if crash:
        return None, ("crash", crash, allowed[0])
    observable = run["stdout_mode"] == "pipe"
    first = None
    for i, exp in enumerate(allowed):
        mm = cu.mismatch(obs, exp, observable)
        if mm is None:
            return i, None
        if first is None or (first[2]["exit"] != obs["rc"] and exp["exit"] == obs["rc"]):
            first = (mm[0], mm[1], exp)
    return None, first


def describe(run):
    bits = []
    for k, v in sorted(run["env"].items()):
        bits.append(f"{k}={v!r}")
    bits.append("rsjsonnet " + " ".join(repr(a) for a in run["argv"]))
    if run["stdin"] is not None:
        bits.append("<<< " + repr(run["stdin"]))
    if run["stdin_closed"]:
        bits.append("<&-")
    if run["stdout_mode"] == "full":
        bits.append("> /dev/full")
    if run["stdout_mode"] == "closed":
        bits.append(">&-")
    return " ".join(bits)


def run(tier, seed):
    chk = Check(PROP, tier, seed)
    chk.rule = ("one evaluation = one configuration (input kind, mode, -o, --no-trailing-newline, program class, "
                "ext/TLA kind, fault) replayed on the real binary; distinct = the configuration; non-trivial = "
                "the argument grammar accepts it (the run gets past ParseArgs)")
    chk.assumptions = [
        "program classes are rendered as the Jsonnet texts of lib/c12_util.py PROGRAMS",
        "open points of the property are nondeterministic in the specification: unused ext/TLA code with a "
        "syntax error may or may not fail the run; -m files written before a failing field may or may not stay",
        "a closed stdout/stdin is produced by /bin/sh `exec ... >&-` / `<&-`; a full stdout is /dev/full",
        "runs as root: permission faults are replaced by missing / directory / dangling-symlink faults",
    ]
    binary = vlib.build_cli()

    if tier == "quick":
        res = run_tlc("MC_Cli", "MC_Cli_sample.cfg", "c12_sample", workers=8, coverage=False,
                      env={"C12_SEED": str(seed % RATE)}, timeout=1200)
        label = f"Cli contract + view laws, lattice sample 1/{RATE} (residue {seed % RATE})"
    else:
        res = run_tlc("MC_Cli", "MC_Cli_all.cfg", "c12_all", workers=8, coverage=False, timeout=3000)
        label = "Cli contract + view laws, whole universe"
    tlc_must_pass(res, "Cli model")
    chk.add_tlc(res, label)

    groups = group_cases(res)
    seen = set()
    for cfg, allowed in groups.values():
        for a in allowed:
            if a["exit"] == 0:
                seen.add(("success", cfg["mode"] in ("m", "mS"), cfg["out"]))
            else:
                seen.add(a["why"])
                if a["why"] == "manifestation of a field fails":
                    seen.add(("partial files", bool(a["files"])))
    need = CAUSES + [("success", m, o) for m in (False, True) for o in (False, True)] \
        + [("partial files", True), ("partial files", False)]
    for n in need:
        if n not in seen:
            raise vlib.ToolError(f"vacuity: no terminal behaviour of Cli.tla for {n} ({label})")
    keys = sorted(groups)
    scratch_root = vlib.workdir("c12", f"tmp{os.getpid()}")
    jobs = []
    for i, k in enumerate(keys):
        cfg, allowed = groups[k]
        run_ = cu.concretise(cfg, vlib.rng(seed, "c12:" + k))
        jobs.append((i, k, cfg, allowed, run_))

    def work(job):
        i, k, cfg, allowed, run_ = job
        return cu.execute(binary, run_, os.path.join(scratch_root, str(i)))

    try:
        with concurrent.futures.ThreadPoolExecutor(max_workers=12) as ex:
            observations = list(ex.map(work, jobs))
    finally:
        shutil.rmtree(scratch_root, ignore_errors=True)

    by_exit = {"0": 0, "1": 0, "2": 0}
    by_why, by_mode, by_fault, by_prog, by_ext = {}, {}, {}, {}, {}
    open_cfgs = 0
    open_taken = {}
    disagreements = {}
    for (i, k, cfg, allowed, run_), obs in zip(jobs, observations):
        usage = any(a["exit"] == 2 for a in allowed)
        chk.count(key=k, nontrivial=not usage)
        for name, table in (("mode", by_mode), ("fault", by_fault), ("prog", by_prog), ("ext", by_ext)):
            table[cfg[name]] = table.get(cfg[name], 0) + 1
        if len(allowed) > 1:
            open_cfgs += 1
        idx, bad = judge(cfg, allowed, run_, obs)
        if bad is None:
            exp = allowed[idx]
            by_exit[str(exp["exit"])] += 1
            w = exp["why"] or "success"
            by_why[w] = by_why.get(w, 0) + 1
            if len(allowed) > 1:
                t = f"{w} / files kept: {len(exp['files'])}"
                open_taken[t] = open_taken.get(t, 0) + 1
            if exp["exit"] == 0 and cfg["fault"] == "none":
                chk.sample({"run": describe(run_), "exit": 0, "stdout": cu.text(exp["stdout"]),
                            "files": {cu.text(f["path"]): cu.text(f["data"]) for f in exp["files"]}}, limit=3)
            elif exp["exit"] != 0:
                chk.sample({"run": describe(run_), "exit": exp["exit"], "why": exp["why"]}, limit=6)
            continue
        cls, what, exp = bad
        sig = {"kind": "cli", "class": cls, "fault": cfg["fault"], "mode": cfg["mode"],
               "ntn": str(cfg["ntn"]).lower(), "out": str(cfg["out"]).lower(),
               "want_exit": str(exp["exit"]), "got_exit": str(obs["rc"]), "why": exp["why"] or "success"}
        payload = {"cfg": cfg, "allowed": allowed, "run": run_}
        dk = f"{cls} fault={cfg['fault']} ntn={sig['ntn']} want={sig['want_exit']} got={sig['got_exit']}"
        disagreements[dk] = disagreements.get(dk, 0) + 1
        chk.disagree(sig, f"`{describe(run_)}`: {what}"
                          + (f" [stderr: {obs['stderr'][:160].decode('utf-8', 'replace')!r}]" if obs["stderr"] else ""),
                     payload)
    chk.traces_validated = len(jobs)
    chk.exhaustive = tier != "quick"
    chk.extra["configurations"] = len(jobs)
    chk.extra["terminal_behaviours"] = sum(len(g[1]) for g in groups.values())
    chk.extra["open_configurations"] = open_cfgs
    chk.extra["open_alternative_taken"] = open_taken
    chk.extra["disagreement_classes"] = disagreements
    chk.extra["matched_by_exit"] = by_exit
    chk.extra["matched_by_cause"] = by_why
    chk.extra["by_mode"] = by_mode
    chk.extra["by_fault"] = by_fault
    chk.extra["by_program"] = by_prog
    chk.extra["by_ext_kind"] = by_ext
    return chk.finish()


def replay(path):
    with open(path) as f:
        rp = json.load(f)
    binary = vlib.build_cli()
    case = rp["case"]
    scratch = os.path.join(vlib.workdir("c12", f"tmp{os.getpid()}"), "replay")
    try:
        obs = cu.execute(binary, case["run"], scratch)
    finally:
        shutil.rmtree(os.path.dirname(scratch), ignore_errors=True)
    idx, bad = judge(case["cfg"], case["allowed"], case["run"], obs)
    print(json.dumps({
        "what": rp["what"],
        "run": describe(case["run"]),
        "allowed": [{"exit": a["exit"], "stdout": cu.text(a["stdout"]), "why": a["why"],
                     "files": {cu.text(f["path"]): cu.text(f["data"]) for f in a["files"]}} for a in case["allowed"]],
        "observed": {"exit": obs["rc"],
                     "stdout": None if obs["stdout"] is None else obs["stdout"].decode("utf-8", "replace"),
                     "stderr": obs["stderr"].decode("utf-8", "replace")[:600],
                     "changed": {k: (v[0], None if v[1] is None else (v[1].decode("utf-8", "replace") if isinstance(v[1], bytes) else v[1]))
                                 for k, v in obs["changed"].items()}},
        "verdict": "agrees" if bad is None else f"{bad[0]}: {bad[1]}",
    }, indent=1, ensure_ascii=False))
    return 0
