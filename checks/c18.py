"""C18 - strings are sequences of Unicode code points in every string function.

spec/Strings.tla gives one reference operator per string function, over sequences of
code points.  For every group of functions TLC enumerates the universe of
spec/MC_Strings.tla (all strings up to a length bound over an alphabet with 1-, 2-, 3-
and 4-byte characters, a combining mark and separators x all listed arguments, plus
seeded random longer strings), checks the identities of the property on the
specification (invariant Laws) and prints every call with its expected result
(invariant Emit).  Every call is then made against the real implementation and the
manifested result is compared code point by code point."""
import json
import os
from concurrent.futures import ThreadPoolExecutor

import vlib
import c18_util as u
from vlib import Check, run_tlc, tlc_must_pass, run_cases

PROP = "C18"
GROUPS = ["unary", "index", "slice", "find", "split", "limit", "strip", "replace", "fmt"]
ALPHA = [97, 98, 44, 32, 233, 8364, 119070, 769]
CHUNK = 150_000
PACK = 12


def extra_strings(tier, seed):
    """Seeded random strings beyond the exhaustive length bound."""
    r = vlib.rng(seed, "c18-extra")
    n, few, lo, hi = (40, 6, 4, 7) if tier == "quick" else (800, 100, 5, 8)
    seen, out = set(), []
    while len(out) < n:
        s = tuple(r.choice(ALPHA) for _ in range(r.randint(lo, hi)))
        if s not in seen:
            seen.add(s)
            out.append(list(s))
    return {"all": out, "few": out[:few]}


def classify(exp, res):
    """None if the implementation agrees with the specification, else (class, text)."""
    if exp["r"] == "error":
        if "err" in res:
            if res["err"].get("stage") != "eval":
                raise vlib.ToolError(f"generated program does not compile: {res}")
            return None
        return "missing-error", "succeeds with " + u.show(res["ok"])
    if "err" in res:
        if res["err"].get("stage") != "eval":
            raise vlib.ToolError(f"generated program does not compile: {res}")
        return "unexpected-error", "fails with " + res["err"].get("kind", "?") + ": " + str(res["err"].get("msg", ""))[:120]
    if u.matches(exp, res):
        return None
    return "wrong-result", "gives " + u.show(u.observed_value(exp, res))


def run(tier, seed):
    chk = Check(PROP, tier, seed)
    maxlen = 3 if tier == "quick" else 4
    chk.rule = (f"every call (function, string, arguments) of the universe of MC_Strings: all strings of length <= {maxlen} "
                "over {a b , space e-acute euro g-clef U+0301} (positional functions: over one character per UTF-8 width) "
                "x all listed index/length/limit arguments and patterns, plus seeded random longer strings; "
                "distinct = (op, s, p, q, a, b, c); non-trivial = the subject string or a pattern holds a non-ASCII "
                "character, or the specification demands an error")
    chk.assumptions = [
        "Jsonnet string literals denote the intended code points (lexer: C14)",
        "1e20 stands for any integer above every string length (Huge in Strings.tla)",
        "a call that yields its expected value as one element of an array of 12 calls also yields it alone "
        "(pass 1); everything not confirmed that way is evaluated alone and judged there",
        "calls the specification leaves undecided (fractional slice/substr/limit arguments, limits below -1, "
        "empty separator / empty `from`, negative `from` with zero length, surrogate or fractional std.char "
        "arguments, splitLimitR -1 on self-overlapping separators) are executed and only checked for crashes",
    ]
    vlib.build_harness()
    d = vlib.workdir("c18")
    extra_path = os.path.join(d, f"extra_{tier}_{seed}.json")
    extra = extra_strings(tier, seed)
    with open(extra_path, "w") as f:
        json.dump(extra, f)

    def tlc(group):
        return run_tlc("MC_Strings", f"MC_Strings_{group}_{tier}.cfg", f"c18_{group}_{tier}", workers=1,
                       env={"C18_EXTRA": extra_path,
                            # several TLC processes run side by side: keep each JVM's helper threads few
                            "JAVA_TOOL_OPTIONS": "-XX:ParallelGCThreads=2 -XX:CICompilerCount=2"},
                       timeout=3000, coverage=False)

    by_op = {}
    impl_on_outside = {"ok": 0, "err": 0, "huge_rejected": 0}
    r = vlib.rng(seed, "c18-render")
    executed = 0
    sample_every = {}
    tally = {}
    how = {"in_packs": 0, "individually": 0}

    def disagree(sig, what, payload):
        k = sig["fn"] + "/" + sig["class"]
        tally[k] = tally.get(k, 0) + 1
        chk.disagree(sig, what, payload)

    def process(batch):
        """Pass 1: the calls for which the specification gives a value are evaluated PACK at a time
        as one array `[(call), (call), ...]`; an element that equals its expected value agrees.
        Pass 2: every other call (expected error, undecided, or not confirmed by pass 1 - a wrong
        element, or a failure anywhere in its pack) is evaluated on its own and judged there."""
        nonlocal executed
        srcs = [u.source(c, r) for c in batch]
        decided = [i for i, c in enumerate(batch) if c["exp"]["r"] not in ("error", "outside")]
        packs = [decided[j:j + PACK] for j in range(0, len(decided), PACK)]
        pcases = [{"k": "eval", "src": "[" + ", ".join("(" + srcs[i] + ")" for i in g) + "]", "manifest": "single"}
                  for g in packs]
        agreed = set()
        for g, res in zip(packs, run_cases(pcases, "c18_packs", timeout_ms=20000)):
            if vlib.is_crash(res) or "ok" not in res:
                continue
            try:
                vals = json.loads(res["ok"])
            except ValueError:
                continue
            if isinstance(vals, list) and len(vals) == len(g):
                for i, v in zip(g, vals):
                    if u.same(v, u.expected_value(batch[i]["exp"])):
                        agreed.add(i)
        solo = [i for i in range(len(batch)) if i not in agreed]
        cases = {i: {"k": "eval", "src": srcs[i], "manifest": u.manifest_mode(batch[i]["exp"])} for i in solo}
        results = dict(zip(solo, run_cases([cases[i] for i in solo], "c18", timeout_ms=10000)))
        executed += len(batch)
        how["in_packs"] += len(agreed)
        how["individually"] += len(solo)
        for i, c in enumerate(batch):
            op, exp = c["op"], c["exp"]
            key = json.dumps([op, c["s"], c["p"], c["q"], c["a"], c["b"], c["c"]], separators=(",", ":"))
            wide = any(x > 127 for x in c["s"]) or any(x > 127 for x in c["p"]) or any(x > 127 for x in c["q"])
            chk.count(key=key, nontrivial=wide or exp["r"] == "error")
            st = by_op.setdefault(op, {"ok": 0, "error": 0, "outside": 0})
            st["outside" if exp["r"] == "outside" else "error" if exp["r"] == "error" else "ok"] += 1
            if sample_every.setdefault(op, 0) < 1 and wide and exp["r"] not in ("outside",):
                sample_every[op] += 1
                chk.sample({"src": srcs[i], "expected": exp}, limit=40)
            if i in agreed:
                continue
            case, res = cases[i], results[i]
            payload = dict(case, expected=exp, op=op)
            if vlib.is_crash(res):
                disagree({"kind": "string-fn", "fn": op, "class": "crash"},
                         f"`{case['src']}` crashed: {vlib.crash_desc(res)}", payload)
                continue
            if "err" in res and res["err"].get("stage") != "eval":
                raise vlib.ToolError(f"generated program does not compile: {case['src']}: {res['err']}")
            if exp["r"] == "outside":
                chk.outside += 1
                impl_on_outside["ok" if "ok" in res else "err"] += 1
                continue
            if c["lenient"] and "err" in res and res["err"].get("stage") == "eval":
                chk.outside += 1                    # 1e20 rejected outright: not judged (MayReject)
                impl_on_outside["huge_rejected"] += 1
                continue
            bad = classify(exp, res)
            if bad is not None:
                want = "an error" if exp["r"] == "error" else u.show(u.expected_value(exp))
                disagree({"kind": "string-fn", "fn": op, "class": bad[0]},
                         f"`{case['src']}` {bad[1]}; the specification says {want}", payload)

    with ThreadPoolExecutor(max_workers=4) as pool:
        futs = {g: pool.submit(tlc, g) for g in GROUPS}
        for g in GROUPS:
            res = futs[g].result()
            tlc_must_pass(res, f"Strings laws / emission, group {g}")
            chk.add_tlc(res, f"group {g}: identities on the specification + case emission")
            batch = []
            for c in res.lines("CASE"):
                batch.append(c)
                if len(batch) >= CHUNK:
                    process(batch)
                    batch = []
            if batch:
                process(batch)
            vlib.log(f"[C18] group {g}: {res.distinct} cases, TLC {res.wall:.1f}s, executed so far {executed}")

    for op, st in by_op.items():
        if st["ok"] == 0:
            raise vlib.ToolError(f"vacuous universe: no decided successful case for {op}")
    for op in ("index", "substr", "slice", "codepoint", "char"):
        if by_op[op]["error"] == 0:
            raise vlib.ToolError(f"vacuous universe: no error case for {op}")
    chk.extra["by_op"] = by_op
    chk.extra["disagreements_by_fn_and_class"] = tally
    chk.extra["implementation_on_outside_cases"] = impl_on_outside
    chk.extra["evaluated"] = how
    chk.extra["extra_strings"] = {"count": len(extra["all"]), "in_slices": len(extra["few"])}
    chk.traces_validated = executed
    chk.exhaustive = True
    return chk.finish()


def replay(path):
    with open(path) as f:
        rp = json.load(f)
    vlib.build_harness()
    case = {k: v for k, v in rp["case"].items() if k in ("k", "src", "manifest")}
    res = run_cases([case], "c18_replay")[0]
    exp = rp["case"].get("expected")
    out = {"src": case["src"], "expected": exp, "result": {k: v for k, v in res.items() if k in ("ok", "err", "panic", "crash", "timeout")}}
    if exp and not vlib.is_crash(res) and exp["r"] != "outside":
        bad = classify(exp, res)
        out["verdict"] = "agrees" if bad is None else bad[0]
    print(json.dumps(out, indent=1, ensure_ascii=False))
    return 0
