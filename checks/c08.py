"""C08 - == is a structural equivalence and < a total order, mutually consistent.

spec/Values.tla defines Equal / Cmp and the derived operators; TLC checks the laws
(reflexive, symmetric, transitive, == iff same JSON, trichotomy, transitivity of <,
derived operators, errors for unordered kinds) on the specification over the value
universe and emits, for every ordered pair, the expected result of ten operators.
Every (pair, operator) is then evaluated by the real implementation."""
import json

import vlib
import render
from vlib import Check, run_tlc, tlc_must_pass, run_cases

PROP = "C08"

OPS = {
    "eq": "x == y", "ne": "x != y", "equals": "std.equals(x, y)",
    "lt": "x < y", "le": "x <= y", "gt": "x > y", "ge": "x >= y",
    "cmp": "std.__compare(x, y)", "cmparr": "std.__compare_array(x, y)",
    "primeq": "std.primitiveEquals(x, y)",
}


def run(tier, seed):
    chk = Check(PROP, tier, seed)
    chk.rule = ("all ordered pairs of the value universe of MC_Values x 10 operators, array pairs also built from a shared prefix; distinct = source text; "
                "non-trivial = the pair is not two primitives of different type")
    chk.assumptions = ["rendering of specification values as Jsonnet literals (lib/render.py)"]
    vlib.build_harness()
    res = run_tlc("MC_Values", "MC_Values_triples.cfg", "c08_triples", workers=8)
    tlc_must_pass(res, "Values triple laws")
    chk.add_tlc(res, "laws over triples (transitivity)")
    res = run_tlc("MC_Values", "MC_Values_pairs.cfg", "c08_pairs", workers=8)
    tlc_must_pass(res, "Values pair laws / emission")
    chk.add_tlc(res, "laws over pairs + case emission")
    r = vlib.rng(seed, "c08")
    variants = 1 if tier == "quick" else 4
    cases, meta = [], []
    seen = set()
    for c in res.lines("CASE"):
        key = json.dumps([c["x"], c["y"]], sort_keys=True)
        if key in seen:
            continue
        seen.add(key)
        for _ in range(variants):
            xs = render.value_expr(c["x"], r)
            ys = render.value_expr(c["y"], r)
            for op, tmpl in OPS.items():
                src = f"local x = {xs}, y = {ys}; {tmpl}"
                cases.append({"k": "eval", "src": src, "manifest": "single"})
                meta.append((c, op))
        # the same two arrays built from a SHARED prefix (the element thunks of the common part are
        # the same objects in both operands): the value, hence every expected result, is unchanged
        if c["x"]["t"] == "arr" and c["y"]["t"] == "arr":
            xa, ya = c["x"]["a"], c["y"]["a"]
            k = 0
            while k < min(len(xa), len(ya)) and xa[k] == ya[k]:
                k += 1
            if k >= 1 and (len(xa) > k or len(ya) > k or len(xa) == len(ya)):
                pre = render.value_expr({"t": "arr", "a": xa[:k]})
                rx = render.value_expr({"t": "arr", "a": xa[k:]})
                ry = render.value_expr({"t": "arr", "a": ya[k:]})
                for op, tmpl in OPS.items():
                    src = f"local p = {pre}, x = p + {rx}, y = p + {ry}; {tmpl}"
                    cases.append({"k": "eval", "src": src, "manifest": "single"})
                    meta.append((c, op))
                    src = f"local p = {pre} + {rx}, x = p[:{k}] + p[{k}:], y = p[:{k}] + {ry}; {tmpl}"
                    cases.append({"k": "eval", "src": src, "manifest": "single"})
                    meta.append((c, op))
    results = run_cases(cases, "c08", timeout_ms=10000)
    for case, (c, op), res_ in zip(cases, meta, results):
        exp = c["exp"][op]
        prim = {"null", "bool", "num", "str"}
        nontrivial = not (c["x"]["t"] in prim and c["y"]["t"] in prim and c["x"]["t"] != c["y"]["t"])
        chk.count(key=case["src"], nontrivial=nontrivial)
        if vlib.is_crash(res_):
            chk.disagree({"kind": "compare", "class": "crash", "op": op},
                         f"`{case['src']}` crashed: {vlib.crash_desc(res_)}", case)
            continue
        if exp == "error":
            got = "error" if "err" in res_ else res_["ok"]
        else:
            got = res_["ok"] if "ok" in res_ else "error:" + res_["err"]["kind"]
        if got != exp:
            chk.disagree({"kind": "compare", "class": "wrong-result", "op": op},
                         f"`{case['src']}` gives {got}, specification says {exp}", dict(case, expected=exp))
    chk.traces_validated = len(cases)
    chk.exhaustive = True
    for i in (0, len(cases) // 3, len(cases) // 2):
        chk.sample({"src": cases[i]["src"], "expected": meta[i][0]["exp"][meta[i][1]]})
    return chk.finish()


def replay(path):
    with open(path) as f:
        rp = json.load(f)
    vlib.build_harness()
    case = {k: v for k, v in rp["case"].items() if k != "expected"}
    r = run_cases([case], "c08_replay")[0]
    print(json.dumps({"src": case["src"], "expected": rp["case"].get("expected"), "result": r}, indent=1))
    return 0
