"""C04 - evaluation is call-by-need: unused parts never run, used parts run once.

 (a) spec/Machine.tla: thunk state machine; TLC checks EvalOnce / Demand; recorded thunk
     events of real runs are validated against spec/Trace_Machine.tla (see lib/machine.py)
 (b) spec/Rewrite.tla + MC_Rewrite.tla: for every program of the C02 slices (incl. the library slice
     "lib": what std.reverse / foldr / flatMap / join / objectValues ... force) and every site,
     meaning-preserving rewrites (checked on the specification to preserve Sem's outcome)
     must leave the implementation's value / error message / std.trace output unchanged;
     probes (site replaced by `error "probe"`) must have the outcome Sem assigns
 (c) std.trace at every once-instantiated binding site: each demanded site (demanded iff
     replacing it by an error changes Sem's outcome) prints exactly once, the others never."""
import json
import os
import re

import vlib
import semcmp
from vlib import Check, run_tlc, tlc_must_pass, run_cases

PROP = "C04"
SLICES = ["lazy", "func", "obj", "comp", "str", "lib"]
# programs per part of a slice: (quick, thorough); the lib slice has 17 parts
SAMPLE = {"lib": (12, 120)}


def cfg(slice_, sample, maxsites):
    path = os.path.join(vlib.workdir("tlc"), f"gen_rw_{slice_}_{sample}.cfg")
    with open(path, "w") as f:
        f.write(f'CONSTANTS Slice = "{slice_}" Sample = {sample} Fuel = 40 RmMode = 1 MaxSites = {maxsites}\n'
                "INIT Init\nNEXT Next\nINVARIANTS LawRewrite EmitRw\nCHECK_DEADLOCK FALSE\n")
    return path


STD_CALL = re.compile(r"std\.(\w+)\(")


def rewrite_part(chk, tier, seed):
    cases, meta = [], []
    nprog = 0
    slice_of = {}     # original program -> slice
    for sl in SLICES:
        sample = SAMPLE.get(sl, (60, 700))[0 if tier == "quick" else 1]
        res = run_tlc("MC_Rewrite", cfg(sl, sample, 10 if tier == "quick" else 16), f"c04_rw_{sl}", workers=8,
                      seed=seed, timeout=3400, coverage=False)
        tlc_must_pass(res, f"Rewrite slice {sl} (law: rewrites preserve Sem's outcome)")
        chk.add_tlc(res, f"rewrites/probes/traces for slice {sl} (sample={sample})")
        seen = set()
        for c in res.lines("CASE"):
            if c["src"] in seen:
                continue
            seen.add(c["src"])
            slice_of[c["src"]] = sl
            nprog += 1
            for rw in c["rewrites"]:
                cases.append({"k": "eval", "src": rw["src"], "manifest": "multi", "max_stack": 200})
                meta.append(("rewrite:" + rw["kind"], c["src"], c["res"], None))
            for pr in c["probes"]:
                cases.append({"k": "eval", "src": pr["src"], "manifest": "multi", "max_stack": 200})
                meta.append(("probe", c["src"], pr["res"], None))
            if c["traced"]["nsites"] > 0:
                cases.append({"k": "eval", "src": c["traced"]["src"], "manifest": "multi", "max_stack": 200})
                meta.append(("traced", c["src"], c["res"], (sorted(str(i) for i in c["traced"]["demanded"]),
                                                             set(str(i) for i in c["traced"]["unknown"]))))
    results = run_cases(cases, "c04_rw", timeout_ms=20000)
    classes = {}
    for case, (kind, orig, spec, demanded), r in zip(cases, meta, results):
        verdict, detail = semcmp.compare(spec, r)
        classes[f"{kind.split(':')[0]}:{verdict}"] = classes.get(f"{kind.split(':')[0]}:{verdict}", 0) + 1
        chk.count(key=case["src"], nontrivial=verdict in ("agree", "disagree") and detail != "bottom")
        if verdict == "outside":
            chk.outside += 1
            continue
        if verdict == "crash":
            chk.disagree({"kind": kind, "class": "crash"}, f"`{case['src']}` crashed: {detail}", dict(case, expected=spec))
            continue
        if verdict == "disagree":
            sig = {"kind": kind, "class": "outcome-changed"}
            if slice_of.get(orig) == "lib":
                sig.update(slice="lib", fn="+".join(sorted(set(STD_CALL.findall(orig)))),
                           dir=f"spec-{spec[0]}/impl-{'ok' if 'ok' in r else 'err'}")
            chk.disagree(sig, f"`{case['src']}` ({kind} of `{orig}`): {detail}", dict(case, expected=spec))
            continue
        if kind == "traced":
            must, may = demanded
            got = sorted(t for t in r.get("traces", []) if t not in may or r.get("traces", []).count(t) > 1)
            if got != must:
                demanded = must
                chk.disagree({"kind": "traced", "class": "trace-multiset"},
                             f"`{case['src']}`: std.trace printed {got}; call-by-need demands exactly {demanded} "
                             f"(each demanded binding once, the others never)", dict(case, expected=spec, demanded=demanded))
        elif r.get("traces"):
            chk.disagree({"kind": kind, "class": "unexpected-trace"},
                         f"`{case['src']}` printed traces {r['traces']}", dict(case, expected=spec))
    chk.extra["rewrite_outcome_classes"] = classes
    chk.extra["programs_rewritten"] = nprog
    chk.traces_validated += len(cases)
    for i in range(0, len(cases), max(1, len(cases) // 4)):
        chk.sample({"kind": meta[i][0], "src": cases[i]["src"], "of": meta[i][1]})


def run(tier, seed):
    chk = Check(PROP, tier, seed)
    chk.rule = ("(program, site, rewrite kind) / (program, site) probes / traced programs over the C02 slices; "
                "distinct = rewritten source text; non-trivial = decided by the specification; plus recorded thunk-event "
                "traces validated against Trace_Machine")
    chk.assumptions = ["Sem.tla is call-by-name, so 'demanded' is defined without reference to any memoisation",
                       "fresh names t, u do not occur in the program universes"]
    vlib.build_harness()
    rewrite_part(chk, tier, seed)
    try:
        import machine
        machine.thunk_trace_part(chk, tier, seed)
    except ImportError:
        pass
    return chk.finish()


def replay(path):
    with open(path) as f:
        rp = json.load(f)
    vlib.build_harness()
    case = {k: v for k, v in rp["case"].items() if k in ("k", "src", "manifest", "max_stack")}
    r = run_cases([case], "c04_replay")[0]
    verdict, detail = semcmp.compare(rp["case"]["expected"], r)
    print(json.dumps({"src": case["src"], "expected": rp["case"]["expected"], "demanded": rp["case"].get("demanded"),
                      "result": r, "verdict": verdict, "detail": detail}, indent=1))
    return 1 if verdict in ("disagree", "crash") else 0
