"""C07 - object inheritance is associative, late-bound and visibility-preserving.

spec/MC_Inherit.tla enumerates triples (and 4-chains, identities, objectRemoveKey
applications) of object expressions; TLC checks on the reference semantics that all
bracketings manifest identically, that manifestation / std.length / in / objectHas(All) /
objectFields(All) agree on which fields exist, and the objectRemoveKey contract; every
bracketing is then run on the real implementation and compared with the specification's
manifestation and reflection record, and the bracketings with each other byte for byte."""
import json
import os

import vlib
import semcmp
from vlib import Check, run_tlc, tlc_must_pass, run_cases

PROP = "C07"


def cfg(pool, mode, sample, rmmode, fuel=40):
    path = os.path.join(vlib.workdir("tlc"), f"gen_inh_{pool}_{mode}_{sample}_{rmmode}.cfg")
    with open(path, "w") as f:
        f.write(f'CONSTANTS Pool = "{pool}" Mode = "{mode}" Sample = {sample} Fuel = {fuel} RmMode = {rmmode}\n'
                "INIT Init\nNEXT Next\nINVARIANTS Laws Emit\nCHECK_DEADLOCK FALSE\n")
    return path


def gen(chk, pool, mode, sample, seed):
    """Cases decided under both readings of objectRemoveKey; others are outside domain."""
    per_mode = []
    for rm in (1, 2):
        res = run_tlc("MC_Inherit", cfg(pool, mode, sample, rm), f"c07_{pool}_{mode}_{rm}", workers=8,
                      seed=seed, timeout=3000, coverage=False)
        tlc_must_pass(res, f"Inherit {pool}/{mode} rm={rm}")
        chk.add_tlc(res, f"{pool}/{mode} sample={sample} RmMode={rm}")
        d = {}
        for c in res.lines("CASE"):
            d[c["srcs"][0]] = c
        per_mode.append(d)
    out = []
    for k, c1 in per_mode[0].items():
        c2 = per_mode[1].get(k)
        if c2 is None:
            continue
        if c1["man"] != c2["man"]:
            c1 = dict(c1, man=["outside"])
            chk.outside += 1
        if c1["ref"] != c2["ref"]:
            c1 = dict(c1, ref=["outside"])
            chk.outside += 1
        out.append(c1)
    return out


def run(tier, seed):
    chk = Check(PROP, tier, seed)
    chk.rule = ("triples / 4-chains (every bracketing) / identities / objectRemoveKey applications over the object "
                "pools of spec/MC_Inherit.tla; distinct = composite source text; non-trivial = decided by the "
                "specification under both readings of objectRemoveKey")
    chk.assumptions = ["Sem.tla object model (layers, self/super at field evaluation) transcribed from the language definition",
                       "objectRemoveKey: cases where 'delete from every layer' and 'snapshot' readings differ are outside the domain"]
    vlib.build_harness()
    plan = [("small", "triples", 2500 if tier == "quick" else 0),
            ("large", "identity", 0),
            ("large", "remove", 0),
            ("small", "chains4", 400 if tier == "quick" else 6000),
            ("small", "shared", 800 if tier == "quick" else 0),
            ("small", "sharedA", 900 if tier == "quick" else 0),
            ("small", "sharedB", 900 if tier == "quick" else 0)]
    if tier == "thorough":
        plan.append(("large", "triples", 25000))
    groups = []
    for pool, mode, sample in plan:
        groups += [(mode, c) for c in gen(chk, pool, mode, sample, seed)]
    cases, meta = [], []
    for gi, (mode, c) in enumerate(groups):
        for bi, src in enumerate(c["srcs"]):
            cases.append({"k": "eval", "src": src, "manifest": "multi", "max_stack": 200})
            meta.append((gi, bi, "man"))
        for bi, src in enumerate(c["refs"]):
            cases.append({"k": "eval", "src": src, "manifest": "multi", "max_stack": 200})
            meta.append((gi, bi, "ref"))
    results = run_cases(cases, "c07", timeout_ms=20000)
    first_out = {}
    classes = {}
    for case, (gi, bi, kind), r in zip(cases, meta, results):
        mode, c = groups[gi]
        spec = c[kind]
        verdict, detail = semcmp.compare(spec, r)
        classes[f"{mode}:{kind}:{verdict}"] = classes.get(f"{mode}:{kind}:{verdict}", 0) + 1
        chk.count(key=case["src"], nontrivial=verdict in ("agree", "disagree") and detail != "bottom")
        if verdict == "crash":
            chk.disagree({"kind": "inherit", "class": "crash", "mode": mode},
                         f"`{case['src']}` crashed: {detail}", dict(case, expected=spec))
        elif verdict == "disagree":
            chk.disagree({"kind": "inherit", "class": "wrong-" + kind, "mode": mode},
                         f"`{case['src']}`: {detail}", dict(case, expected=spec))
        # bracketings must agree with each other byte for byte (whatever the specification says)
        if not vlib.is_crash(r):
            sig = ("ok", r["ok"]) if "ok" in r else ("err", r["err"]["kind"], r["err"].get("msg"))
            key = (gi, kind)
            if key not in first_out:
                first_out[key] = (case["src"], sig)
            elif first_out[key][1] != sig and spec[0] not in ("bottom",):
                if sig[0] == "err" and first_out[key][1][0] == "err":
                    continue  # which of several errors is reported first is unspecified
                chk.disagree({"kind": "inherit", "class": "bracketing-differs", "mode": mode},
                             f"`{case['src']}` gives {str(sig)[:200]} but `{first_out[key][0]}` gives {str(first_out[key][1])[:200]}",
                             dict(case, other=first_out[key][0]))
    chk.extra["outcome_classes"] = classes
    chk.traces_validated = len(cases)
    chk.exhaustive = False
    for gi in range(0, len(groups), max(1, len(groups) // 4)):
        chk.sample({"mode": groups[gi][0], "srcs": groups[gi][1]["srcs"], "man": groups[gi][1]["man"]})
    return chk.finish()


def replay(path):
    with open(path) as f:
        rp = json.load(f)
    vlib.build_harness()
    case = {k: v for k, v in rp["case"].items() if k in ("k", "src", "manifest", "max_stack")}
    r = run_cases([case], "c07_replay")[0]
    out = {"src": case["src"], "result": r, "what": rp["what"]}
    rc = 0
    if "expected" in rp["case"]:
        verdict, detail = semcmp.compare(rp["case"]["expected"], r)
        out.update(verdict=verdict, detail=detail)
        rc = 1 if verdict in ("disagree", "crash") else 0
    print(json.dumps(out, indent=1))
    return rc
