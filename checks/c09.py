"""C09 - scoping errors are found before anything runs, and only real ones.

spec/Static.tla is the static judgement (set of scoping errors of a program);
spec/MC_Static.tla composes one-hole contexts (every binder kind / syntactic position,
dead code included) to depth 2 and fills them with faulty and fault-free expressions.
The implementation must reject a program at load time iff the set is non-empty, with a
member of the set, and a program that loads must never crash on an unbound name."""
import json
import os

import vlib
from vlib import Check, run_tlc, tlc_must_pass, run_cases

PROP = "C09"


def cfg(depth, sample):
    path = os.path.join(vlib.workdir("tlc"), f"gen_static_{depth}_{sample}.cfg")
    with open(path, "w") as f:
        f.write(f"CONSTANTS Depth = {depth} Sample = {sample}\nINIT Init\nNEXT Next\nINVARIANT Emit\nCHECK_DEADLOCK FALSE\n")
    return path


def run(tier, seed):
    chk = Check(PROP, tier, seed)
    chk.rule = ("contexts x fillers of spec/MC_Static.tla at depth 1 (all) and depth 2 (quick: seeded sample, thorough: all); "
                "distinct = source text; non-trivial = the program has at least one scoping fault or binds a name that the filler uses")
    chk.assumptions = ["Static.tla threads the environment as the Jsonnet specification's static checking rules do"]
    vlib.build_harness()
    progs = {}
    for depth, sample in ((1, 0), (2, 6000 if tier == "quick" else 0)):
        res = run_tlc("MC_Static", cfg(depth, sample), f"c09_d{depth}", workers=8, seed=seed, timeout=3000, coverage=False)
        tlc_must_pass(res, f"Static depth {depth}")
        chk.add_tlc(res, f"depth {depth} sample={sample}")
        for c in res.lines("CASE"):
            progs[c["src"]] = c["errs"]
    srcs = sorted(progs)
    cases = [{"k": "eval", "src": s, "manifest": "multi", "max_stack": 100} for s in srcs]
    results = run_cases(cases, "c09", timeout_ms=20000)
    classes = {}
    for src, case, r in zip(srcs, cases, results):
        errs = [tuple(e) for e in progs[src]]
        chk.count(key=src, nontrivial=bool(errs) or "v" in src)
        if vlib.is_crash(r):
            cls = "crash"
            chk.disagree({"kind": "static", "class": "crash", "msg": vlib.crash_desc(r)},
                         f"`{src}` crashed: {vlib.crash_desc(r)}", dict(case, expected=progs[src]))
        elif errs:
            e = r.get("err")
            if e is None or e["stage"] != "analyze":
                got = "a value" if "ok" in r else f"{e['stage']}/{e['kind']}"
                cls = "missed"
                chk.disagree({"kind": "static", "class": "not-rejected", "fault": errs[0][0]},
                             f"`{src}` has scoping faults {errs} but the implementation gives {got}",
                             dict(case, expected=progs[src]))
            else:
                got = (e["kind"], e.get("name") or "")
                if got in errs:
                    cls = "rejected"
                else:
                    cls = "wrong-diagnosis"
                    chk.disagree({"kind": "static", "class": "wrong-diagnosis", "fault": errs[0][0]},
                                 f"`{src}`: implementation reports {got}, the program's scoping faults are {errs}",
                                 dict(case, expected=progs[src]))
        else:
            e = r.get("err")
            if e is not None and e["stage"] in ("lex", "parse", "analyze"):
                cls = "spurious"
                chk.disagree({"kind": "static", "class": "spurious-rejection", "stage": e["stage"]},
                             f"`{src}` has no scoping fault but was rejected: {e['stage']}/{e['kind']} {e.get('name')}",
                             dict(case, expected=progs[src]))
            else:
                cls = "accepted"
        classes[cls] = classes.get(cls, 0) + 1
    chk.extra["outcome_classes"] = classes
    for need in ("rejected", "accepted"):
        if classes.get(need, 0) == 0:
            raise vlib.ToolError(f"vacuity: no program was {need}")
    chk.traces_validated = len(cases)
    chk.exhaustive = (tier == "thorough")
    for i in range(0, len(srcs), max(1, len(srcs) // 5)):
        chk.sample({"src": srcs[i], "static_errors": progs[srcs[i]]})
    return chk.finish()


def replay(path):
    with open(path) as f:
        rp = json.load(f)
    vlib.build_harness()
    case = {k: v for k, v in rp["case"].items() if k != "expected"}
    r = run_cases([case], "c09_replay")[0]
    print(json.dumps({"src": case["src"], "static_errors": rp["case"].get("expected"), "result": r}, indent=1))
    return 0
