"""C16 - diagnostics always locate inside the source and always render.

 (a) spec/Spans.tla: the span table as coded (cumulative context ends, packed inline
     ids `(offset+1) | len << 38`, interned ids) over exact big naturals.  TLC checks
     RoundTrip / Canonical / TableTight / EndsExact in every state of every script of
     InsertContext / Intern operations over the magnitude table (0, 1, 7, 2^25-2..2^25+1,
     2^38-3..2^38, 2^40, +- small deltas; starts also anchored at the position whose
     GLOBAL offset is the inline threshold): exhaustively for small shapes, by seeded
     simulation for 4 contexts x 4 spans.  Three deliberately wrong variants of the
     model must be rejected (the universe is sharp).  Every script is replayed on the
     real SpanManager; after every operation every id issued so far must decode to the
     triple it was made from.
 (b) failing programs (repository fail tests, seeded mutations of pass tests, error
     kind x surroundings family, imports, call chains) are run through the library;
     every span of the error and of every stack-trace entry becomes an event; TLC
     validates the events against spec/Trace_Spans.tla (a span must be explained by an
     Intern whose precondition is 0 <= s <= e <= length of the named source); the same
     condition is evaluated in Python for all events.
 (c) the same programs are rendered by the real binary, plain and coloured, with
     --max-trace: exit status 1, no panic, `error:` header, location lines
     file:line:col of the primary span and of every shown stack-trace entry, and the
     shown / hidden entries exactly Crop(n, t) of the specification (TLC checks LawCrop
     and emits the table); the coloured report minus its SGR sequences equals the plain one.
 (d) in the background: Apalache checks spec/SpansArith.tla, the pack / unpack / context
     lookup round trip over UNBOUNDED integers (all lengths of three contexts, all spans).
"""
import concurrent.futures as cf
import json
import os
import re
import shutil
import subprocess
import time

import vlib
import c16_util as U
from vlib import Check, run_tlc, tlc_must_pass, run_cases

PROP = "C16"

MUTANTS = ("gtMask", "lenLe", "searchOk")
# programs rendered per (family-generator error kind, other family)
RENDER_PER_GROUP = {"quick": (1, 40), "thorough": (4, 200)}
COLOURS = (False, True)


# ---------------------------------------------------------------------------
# (a) span table

def _tlc_job(job):
    kind, module, cfg, name, kw = job
    return job, run_tlc(module, cfg, name, **kw)


def spans_part(chk, tier, seed):
    nbeh = 2000 if tier == "quick" else 30000
    exh = ["q1", "q2"] if tier == "quick" else ["q1", "q2", "t1", "t2", "t3"]
    jobs = []
    for c in exh:
        jobs.append(("mc", "MC_Spans", f"MC_Spans_{c}.cfg", f"c16_spans_{c}",
                     dict(workers=4, timeout=3000, coverage=False)))
    jobs.append(("sim", "MC_Spans", "MC_Spans_sim.cfg", "c16_spans_sim",
                 dict(workers=1, depth=9, seed=seed, env={"NBEH": str(nbeh)}, timeout=3000,
                      coverage=False, extra=["-simulate"])))
    jobs.append(("crop", "MC_Spans", "MC_Spans_crop.cfg", "c16_crop", dict(workers=2, timeout=600)))
    for v in MUTANTS:
        jobs.append(("mutant", "MC_Spans", f"MC_Spans_wrong_{v}.cfg", f"c16_wrong_{v}",
                     dict(workers=2, timeout=600, coverage=False)))
    results = {}
    with cf.ThreadPoolExecutor(max_workers=4) as ex:
        for job, res in ex.map(_tlc_job, jobs):
            results[job[3]] = (job, res)

    # sharpness of the universe: every deliberately wrong model must violate an invariant
    for v in MUTANTS:
        _, res = results[f"c16_wrong_{v}"]
        if res.rc != 12 or not res.error or "is violated" not in res.error:
            raise vlib.ToolError(f"the wrong model variant {v} is not rejected by TLC (rc={res.rc}): "
                                 f"the span universe is too weak; see {res.out_path}")
    chk.extra["wrong_model_variants_rejected"] = list(MUTANTS)

    crop = {}
    job, res = results["c16_crop"]
    tlc_must_pass(res, "Crop laws")
    chk.add_tlc(res, "Crop(n, t) laws + table")
    for c in res.lines("CROP"):
        crop[(c["n"], c["t"])] = [(x["k"], x["i"]) for x in c["shown"]]

    r = vlib.rng(seed, "c16-script-sample")
    scripts = {}
    per_cfg = {}
    for name, (job, res) in results.items():
        if job[0] not in ("mc", "sim"):
            continue
        tlc_must_pass(res, f"Spans model {job[2]}")
        chk.add_tlc(res, f"Spans {job[0]} ({job[2]})")
        n = 0
        # the largest exhaustive configuration is replayed on a seeded sample
        keep = 0.1 if job[2] == "MC_Spans_t2.cfg" else 1.0
        for s in res.lines("SCRIPT"):
            n += 1
            if keep < 1.0 and r.random() >= keep:
                continue
            key = json.dumps(s["ops"], separators=(",", ":"))
            if key not in scripts:
                scripts[key] = s
        per_cfg[job[2]] = n
    chk.extra["span_scripts_emitted"] = per_cfg

    cases, metas = [], []
    for key, s in scripts.items():
        cases.append({"k": "spans", "ops": U.script_ops(s["ops"])})
        metas.append(s)
    results_h = run_cases(cases, "c16_spans", timeout_ms=10000)
    n_inline = n_interned = enc_mismatch = 0
    for case, s, res in zip(cases, metas, results_h):
        ops = case["ops"]
        nspan = sum(1 for o in ops if o[0] == "span")
        nctx = len(ops) - nspan
        interned = sum(s["enc"])
        beyond_first = any(o[0] == "span" and o[1] > 1 for o in ops)
        chk.count(key=json.dumps(ops), nontrivial=(interned > 0 or beyond_first))
        if vlib.is_crash(res):
            chk.disagree({"kind": "spans", "class": "crash"},
                         f"span script crashed: {vlib.crash_desc(res)}", case)
            continue
        expect = []
        bad = False
        for j, (op, ob) in enumerate(zip(ops, res["obs"])):
            if op[0] == "span":
                expect.append([op[1], op[2], op[3]])
            if ob["err"] is not None:
                chk.disagree({"kind": "spans", "class": "rejected", "op": op[0]},
                             f"operation #{j} {op} of a valid script panicked: {ob['err']}",
                             dict(case, at=j))
                bad = True
                break
            if ob["dec"] != expect:
                k = next((k for k in range(len(expect)) if k >= len(ob["dec"]) or ob["dec"][k] != expect[k]), 0)
                chk.disagree({"kind": "spans", "class": "round-trip", "after": op[0]},
                             f"after operation #{j} {op} the id issued for span {expect[k]} decodes to "
                             f"{ob['dec'][k] if k < len(ob['dec']) else None} (script {ops})",
                             dict(case, at=j, expected=expect))
                bad = True
                break
        if not bad:
            last = res["obs"][-1]["enc"]
            n_inline += last.count("Inline")
            n_interned += last.count("Interned")
            if [1 if e == "Interned" else 0 for e in last] != s["enc"]:
                enc_mismatch += 1
    chk.traces_validated += len(cases)
    chk.extra["span_scripts_replayed"] = len(cases)
    chk.extra["span_ids_inline_in_impl"] = n_inline
    chk.extra["span_ids_interned_in_impl"] = n_interned
    chk.extra["span_scripts_where_model_and_impl_choose_different_encoding"] = enc_mismatch
    if n_inline == 0 or n_interned == 0:
        raise vlib.ToolError("vacuity: the span scripts did not exercise both encodings in the implementation")
    for i in (0, len(cases) // 2, len(cases) - 1):
        chk.sample({"span_script": cases[i]["ops"], "model_encoding": metas[i]["enc"]}, limit=3)
    return crop


# ---------------------------------------------------------------------------
# (b) error spans

def build_programs(tier, seed):
    r = vlib.rng(seed, "c16-programs")
    progs, skipped = U.ui_fail_programs()
    progs += U.mutated_pass_programs(vlib.rng(seed, "c16-mut"), 6 if tier == "quick" else 40)
    fam = U.family_programs()
    if tier == "quick":
        # stratified: every (stage, error kind) keeps at least 3 of its surroundings
        groups = {}
        for q in fam:
            groups.setdefault("/".join(q.name.split("/")[:3]), []).append(q)
        fam = []
        rest = []
        for g in sorted(groups):
            lst = groups[g]
            r.shuffle(lst)
            fam += lst[:3]
            rest += lst[3:]
        fam += r.sample(rest, max(0, min(len(rest), 2500 - len(fam))))
    progs += fam
    # call chains: pure (n calls => n entries, decided by the specification) and mixed
    kinds = ["call", "field", "item", "var"]
    for n in range(0, 9):
        progs.append(U.Prog(f"chain/call/{n}", U.chain_program(["call"] * n), family="chain", chain=n))
    nmixed = 12 if tier == "quick" else 150
    for j in range(nmixed):
        n = r.randrange(1, 9)
        ks = [r.choice(kinds) for _ in range(n)]
        eol = r.choice(["\n", "\r\n"])
        indent = r.choice(["", "\t", "  "])
        progs.append(U.Prog(f"chain/mixed/{j}/" + "-".join(ks), U.chain_program(ks, eol, indent),
                            family="chain-mixed"))
    return progs, skipped


def spans_of(err):
    """[(role, [idx, len, s, e])] of an error description of the harness."""
    out = []
    for sp in err.get("spans", []):
        out.append(("error", sp))
    for name, sp in err.get("trace", []):
        if sp is not None:
            out.append(("trace:" + name, sp))
    return out


def errors_part(chk, tier, seed, stdlib):
    progs, skipped = build_programs(tier, seed)
    chk.extra["ui_fail_programs_skipped"] = skipped
    cases = [p.case() for p in progs]
    results = run_cases(cases, "c16_errors", timeout_ms=20000)
    failing = []
    stage_counts, family_counts, src_kinds = {}, {}, {}
    not_failing = 0
    n_events = 0
    trace_cases = []          # (events, python_ok)
    for p, c, res in zip(progs, cases, results):
        if vlib.is_crash(res):
            chk.count(key=p.name, nontrivial=False)
            chk.disagree({"kind": "diagnostic", "class": "crash", "family": p.family,
                          "msg": vlib.crash_desc(res)[:120]},
                         f"{p.name}: {vlib.crash_desc(res)} on {p.src[:200]!r}", dict(c, name=p.name))
            continue
        if "err" not in res:
            not_failing += 1
            continue
        err = res["err"]
        loads = res.get("loads", [])
        known = {0: len(stdlib), 1: len(p.src)}
        for j, lit in enumerate(loads):
            if lit in p.files:
                known[2 + j] = len(p.files[lit])
        sps = spans_of(err)
        chk.count(key=p.name, nontrivial=len(sps) > 0)
        stage_counts[err["stage"]] = stage_counts.get(err["stage"], 0) + 1
        family_counts[p.family] = family_counts.get(p.family, 0) + 1
        events = [{"ev": "begin"}]
        nsrc = max([1] + list(known.keys()))
        for idx in range(0, nsrc + 1):
            events.append({"ev": "ctx", "len": known.get(idx, 0)})
        ok = True
        for role, (idx, ln, s, e) in sps:
            if idx >= 0 and idx in known and known[idx] != ln:
                raise vlib.ToolError(f"{p.name}: harness reports length {ln} for source {idx}, expected {known[idx]}")
            events.append({"ev": "span", "ctx": idx + 1, "s": s, "e": e})
            n_events += 1
            sk = "stdlib" if idx == 0 else "main" if idx == 1 else "import"
            src_kinds[sk] = src_kinds.get(sk, 0) + 1
            if s == e:
                src_kinds["empty"] = src_kinds.get("empty", 0) + 1
            if idx in known and e == known[idx]:
                src_kinds["ending_at_eof"] = src_kinds.get("ending_at_eof", 0) + 1
            if s == 0:
                src_kinds["starting_at_first_byte"] = src_kinds.get("starting_at_first_byte", 0) + 1
            good = idx >= 0 and idx in known and 0 <= s <= e <= known[idx]
            if not good:
                ok = False
                chk.disagree({"kind": "diagnostic", "class": "span-out-of-source", "stage": err["stage"],
                              "errkind": err.get("kind"), "role": role},
                             f"{p.name}: {role} span of {err['stage']} error {err.get('kind')} is "
                             f"[{s}, {e}) in source #{idx} of length {known.get(idx)}; program {p.src[:200]!r}",
                             dict(c, name=p.name, span=[idx, ln, s, e]))
        trace_cases.append((events, ok, p.name))
        failing.append((p, res, known))
    chk.extra["programs_run"] = len(progs)
    chk.extra["programs_failing"] = len(failing)
    chk.extra["programs_not_failing"] = not_failing
    chk.extra["failing_by_stage"] = stage_counts
    chk.extra["failing_by_family"] = family_counts
    chk.extra["span_events"] = n_events
    chk.extra["span_events_by_class"] = src_kinds
    for k in ("stdlib", "main", "import", "empty", "ending_at_eof", "starting_at_first_byte"):
        if src_kinds.get(k, 0) == 0:
            raise vlib.ToolError(f"vacuity: no span event of class {k}")
    for st in ("lex", "parse", "analyze", "eval"):
        if stage_counts.get(st, 0) == 0:
            raise vlib.ToolError(f"vacuity: no failing program of stage {st}")

    # TLC validates a seeded sample of whole programs (clean ones in one trace)
    r = vlib.rng(seed, "c16-trace-sample")
    budget = 4000 if tier == "quick" else 40000
    clean = [t for t in trace_cases if t[1]]
    r.shuffle(clean)
    evs = []
    nprog = 0
    for events, _, _ in clean:
        if len(evs) + len(events) > budget:
            break
        evs += events
        nprog += 1
    d = vlib.workdir("c16")
    path = os.path.join(d, f"trace_{os.getpid()}.ndjson")
    with open(path, "w") as f:
        for e in evs:
            f.write(json.dumps(e) + "\n")
    res = run_tlc("Trace_Spans", "Trace_Spans.cfg", "c16_trace", workers=1, env={"TRACE": path},
                  timeout=1800, coverage=False)
    chk.add_tlc(res, "trace validation of error spans (Trace_Spans)")
    rejects = list(res.lines("REJECT"))
    consumed = [c["events"] for c in res.lines("CONSUMED")]
    if rejects or res.rc != 0 or consumed != [len(evs)] or res.distinct != len(evs) + 1:
        raise vlib.ToolError(f"TLC and Python disagree on a trace Python accepts: rc={res.rc} rejects={rejects[:1]} "
                             f"consumed={consumed} distinct={res.distinct} events={len(evs)}; see {res.out_path}")
    chk.extra["span_events_validated_by_tlc"] = sum(1 for e in evs if e["ev"] == "span")
    chk.extra["programs_validated_by_tlc"] = nprog
    os.unlink(path)
    # programs Python rejects must be rejected by TLC at the same event
    for k, (events, _, name) in enumerate([t for t in trace_cases if not t[1]][:3]):
        path = os.path.join(d, f"trace_bad_{os.getpid()}_{k}.ndjson")
        with open(path, "w") as f:
            for e in events:
                f.write(json.dumps(e) + "\n")
        res = run_tlc("Trace_Spans", "Trace_Spans.cfg", f"c16_trace_bad{k}", workers=1, env={"TRACE": path},
                      timeout=600, coverage=False)
        rej = list(res.lines("REJECT"))
        want = None
        lens = []
        for j, e in enumerate(events):
            if e["ev"] == "ctx":
                lens.append(e["len"])
            if e["ev"] == "span" and not (1 <= e["ctx"] <= len(lens) and 0 <= e["s"] <= e["e"] <= lens[e["ctx"] - 1]):
                want = j + 1
                break
        if not rej or rej[0]["index"] != want:
            raise vlib.ToolError(f"TLC and Python disagree on the rejected trace of {name}: TLC {rej[:1]}, Python #{want}")
        chk.add_tlc(res, f"trace validation rejecting {name}")
        os.unlink(path)
    chk.traces_validated += len(failing)
    for p, res, _ in failing[:1] + failing[len(failing) // 2:len(failing) // 2 + 1]:
        chk.sample({"program": p.name, "stage": res["err"]["stage"], "kind": res["err"].get("kind"),
                    "spans": res["err"].get("spans"), "trace": res["err"].get("trace", [])[:4]}, limit=5)
    return failing


# ---------------------------------------------------------------------------
# (c) rendering through the real binary

def primary_span(err):
    sp = err.get("spans", [])
    if not sp:
        return None
    if err["stage"] == "analyze" and str(err.get("kind", "")).startswith("Repeated") and len(sp) == 2:
        return sp[1]          # the diagnostic is AT the repetition; the original is a note label
    return sp[0]


def run_cli(job):
    d, args, colour, timeout = job
    env = dict(os.environ)
    env.pop("NO_COLOR", None)
    if not colour:
        env["NO_COLOR"] = "1"
    t0 = time.time()
    try:
        p = subprocess.run([vlib.CLI_BIN] + args, cwd=d, env=env, stdin=subprocess.DEVNULL,
                           capture_output=True, timeout=timeout)
        return p.returncode, p.stdout, p.stderr, time.time() - t0
    except subprocess.TimeoutExpired:
        return None, b"", b"", time.time() - t0


def render_part(chk, tier, seed, failing, crop, stdlib, scratch):
    r = vlib.rng(seed, "c16-render")
    maxn = max(n for n, _ in crop)
    chains = [f for f in failing if f[0].family in ("chain", "chain-mixed")]
    others = [f for f in failing if f[0].family not in ("chain", "chain-mixed")]
    # every family and every error kind of the family generator is represented
    groups = {}
    for f in others:
        nm = f[0].name.split("/")
        key = "/".join(nm[:3]) if nm[0] == "fam" else f[0].family
        groups.setdefault(key, []).append(f)
    chosen = []
    for g in sorted(groups):
        lst = groups[g]
        k = RENDER_PER_GROUP[tier][0 if g.startswith("fam/") else 1]
        chosen += r.sample(lst, min(len(lst), k))
    plan = []      # (prog, res, known, t)
    for f in chains:
        n = len(f[1]["err"].get("trace", []))
        if f[0].chain is not None and n != f[0].chain:
            chk.disagree({"kind": "render", "class": "trace-length", "family": f[0].family},
                         f"{f[0].name}: a chain of {f[0].chain} calls gives {n} stack-trace entries",
                         dict(f[0].case(), name=f[0].name))
        ts = [None] + list(range(0, n + 3)) if (f[0].family == "chain" or tier != "quick") \
            else [None, r.randrange(0, n + 3)]
        for t in ts:
            plan.append(f + (t,))
    for f in chosen:
        n = len(f[1]["err"].get("trace", []))
        opts = [None]
        if n + 2 <= maxn:
            opts += [0, 1, 2, 3, max(0, n - 1), n, n + 1]
        plan.append(f + (None,))
        t = r.choice(opts)
        if t is not None:
            plan.append(f + (t,))
    jobs, metas = [], []
    for k, (p, res, known, t) in enumerate(plan):
        d = os.path.join(scratch, f"r{k}")
        os.makedirs(d)
        main = os.path.basename(p.name.split("#")[0]) if p.family == "ui-fail" else "main.jsonnet"
        with open(os.path.join(d, main), "wb") as f:
            f.write(p.src)
        for lit, content in p.files.items():
            os.makedirs(os.path.dirname(os.path.join(d, lit)) or d, exist_ok=True)
            with open(os.path.join(d, lit), "wb") as f:
                f.write(content)
        args = []
        if p.max_stack is not None:
            args += ["--max-stack", str(p.max_stack)]
        if t is not None:
            args += ["--max-trace", str(t)]
        args.append(main)
        for colour in COLOURS:
            jobs.append((d, args, colour, 60))
            metas.append((p, res, known, t, colour, main, args))
    with cf.ThreadPoolExecutor(max_workers=12) as ex:
        outs = list(ex.map(run_cli, jobs))

    plain_text = {}
    stats = {"renders": 0, "with_location": 0, "columns_compared": 0, "cropped": 0, "std_trace_programs": 0,
             "coloured_equal_plain": 0, "import_load_error_reports": 0}
    for (p, res, known, t, colour, main, args), (rc, so, se, wall) in zip(metas, outs):
        err = res["err"]
        payload = {"k": "render", "name": p.name, "src": p.src.decode("utf-8", "replace"),
                   "src_bytes": list(p.src) if len(p.src) < 4000 else None,
                   "files": {k: v.decode("utf-8", "replace") for k, v in p.files.items()},
                   "args": args, "colour": colour}
        sig0 = {"kind": "render", "family": p.family, "stage": err["stage"], "colour": str(colour)}
        stats["renders"] += 1
        text = se.decode("utf-8", "replace")
        if rc is None:
            chk.count(key=[p.name, args, colour], nontrivial=False)
            chk.disagree(dict(sig0, **{"class": "crash"}), f"{p.name} {args}: the binary timed out", payload)
            continue
        if "panicked at" in text or rc not in (0, 1, 2):
            chk.count(key=[p.name, args, colour], nontrivial=False)
            m = re.search(r"panicked at ([^\n]*?):\d+:\d+:\n([^\n]*)", text)
            msg = (os.path.basename(m.group(1)) + ": " + m.group(2)) if m else f"exit {rc}"
            chk.disagree(dict(sig0, **{"class": "crash", "msg": msg[:160]}),
                         f"{p.name} {args} colour={colour}: the binary exits {rc} on {p.src[:80]!r}: "
                         f"{text.strip()[:300]!r}", payload)
            continue
        if colour:
            text = U.SGR_RE.sub("", text)
        blocks = U.parse_report(text)
        has_loc = any(b["locs"] for b in blocks)
        chk.count(key=[p.name, args, colour], nontrivial=has_loc)
        stats["with_location"] += has_loc
        if rc != 1:
            chk.disagree(dict(sig0, **{"class": "exit-status"}),
                         f"{p.name} {args}: the library reports a {err['stage']} error but the binary exits {rc}", payload)
            continue
        if not blocks or blocks[0]["kind"] != "error":
            chk.disagree(dict(sig0, **{"class": "no-error-header"}),
                         f"{p.name} {args}: the report does not start with an `error:` header: {text[:300]!r}", payload)
            continue
        # an import whose file does not load prints that file's own diagnostic first; the
        # report of the evaluation error the library returned starts at the last `error:`
        first_err = max(k for k, b in enumerate(blocks) if b["kind"] == "error")
        if first_err > 0:
            if err.get("kind") != "ImportFailed" or any(b["kind"] != "error" for b in blocks[:first_err]):
                chk.disagree(dict(sig0, **{"class": "extra-error"}),
                             f"{p.name} {args}: the report has more than one `error:` message: {text[:400]!r}", payload)
                continue
            stats["import_load_error_reports"] += 1
            blocks = blocks[first_err:]
        if not colour:
            plain_text[(p.name, tuple(args))] = text
        elif (p.name, tuple(args)) in plain_text and "\x1b" not in plain_text[(p.name, tuple(args))]:
            if plain_text[(p.name, tuple(args))] != text:
                chk.disagree(dict(sig0, **{"class": "colour-differs"}),
                             f"{p.name} {args}: the coloured report without its SGR sequences differs from the plain one",
                             payload)
                continue
            stats["coloured_equal_plain"] += 1

        def loc_of(sp):
            idx, _, s, _ = sp
            if idx == 0:
                name, data = "<stdlib>", stdlib
            elif idx == 1:
                name, data = main, p.src
            else:
                name = res["loads"][idx - 2]
                data = p.files[name]
            line, col = U.line_col(data, s)
            return name, line, col

        def loc_matches(want, got):
            if want[0] != got[0] or want[1] != got[1]:
                return False
            if want[2] is None:
                return got[2] >= 1
            stats["columns_compared"] += 1
            return want[2] == got[2]

        # the primary location
        prim = primary_span(err)
        if prim is None:
            if blocks[0]["locs"]:
                chk.disagree(dict(sig0, **{"class": "location"}),
                             f"{p.name} {args}: the error carries no span but the report shows {blocks[0]['locs']}", payload)
                continue
        else:
            want = loc_of(prim)
            got = blocks[0]["locs"]
            if len(got) != 1 or not loc_matches(want, got[0]):
                chk.disagree(dict(sig0, **{"class": "location", "errkind": err.get("kind")}),
                             f"{p.name} {args}: primary span {prim[2:]} of source #{prim[0]} is at "
                             f"{want[0]}:{want[1]}:{want[2] if want[2] else '?'} but the report says {got}; "
                             f"program {p.src[:200]!r}", payload)
                continue
        if res.get("traces"):
            stats["std_trace_programs"] += 1
            chk.outside += 1        # std.trace output interleaves its own stack traces
            continue
        # the stack trace: exactly Crop(n, t)
        trace = err.get("trace", [])
        n = len(trace)
        if t is None or n <= t:
            shown = [("entry", i) for i in range(n, 0, -1)]
        else:
            shown = crop[(n, t)]
            stats["cropped"] += 1
        got_blocks = [b for b in blocks[1:] if b["kind"] in ("entry", "hidden")]
        ok = len(got_blocks) == len(shown)
        why = f"{len(got_blocks)} entry/hidden notes, the specification says {len(shown)}"
        if ok:
            for (kind, i), b in zip(shown, got_blocks):
                if kind != b["kind"]:
                    ok, why = False, f"a `{b['head']}` where the specification has {kind} {i}"
                    break
                if kind == "hidden":
                    m = U.HIDDEN_RE.match(b["head"])
                    if int(m.group(1)) != i:
                        ok, why = False, f"`{b['head']}` but {i} entries are hidden"
                        break
                    continue
                sp = trace[i - 1][1]
                if sp is None:
                    if b["locs"]:
                        ok, why = False, f"entry {i} has no span but shows {b['locs']}"
                        break
                else:
                    want = loc_of(sp)
                    if len(b["locs"]) != 1 or not loc_matches(want, b["locs"][0]):
                        ok, why = False, (f"entry {i} ({trace[i-1][0]}) is at {want[0]}:{want[1]}:"
                                          f"{want[2] if want[2] else '?'} but the report shows {b['locs']}")
                        break
        if not ok:
            chk.disagree(dict(sig0, **{"class": "stack-trace", "max_trace": str(t)}),
                         f"{p.name} {args}: stack trace of {n} entries rendered wrongly: {why}", payload)
    chk.traces_validated += len(jobs)
    chk.extra["render"] = stats
    if stats["cropped"] == 0 or stats["columns_compared"] == 0 or stats["coloured_equal_plain"] == 0:
        raise vlib.ToolError(f"vacuity in the render part: {stats}")
    k = next((k for k, m in enumerate(metas) if m[3] is not None and m[0].family == "chain" and m[0].chain == 5
              and m[3] == 3), 0)
    chk.sample({"render": metas[k][0].name, "args": metas[k][6],
                "stderr": outs[k][2].decode("utf-8", "replace")[:700]}, limit=6)


# ---------------------------------------------------------------------------
# Apalache: pack/unpack arithmetic over unbounded integers (in the background of the check)

def apalache_start(tier):
    d = vlib.workdir("c16", "apalache")
    shutil.rmtree(d, ignore_errors=True)
    os.makedirs(d)
    log = open(os.path.join(d, "apalache.log"), "w")
    try:
        p = subprocess.Popen(["timeout", "300" if tier == "quick" else "900", "apalache-mc", "check", "--init=Init", "--next=Next",
                              "--inv=Inv", "--length=1", f"--out-dir={d}/out", f"--run-dir={d}/run",
                              os.path.join(vlib.SPEC, "SpansArith.tla")],
                             cwd=d, stdout=log, stderr=subprocess.STDOUT)
    except OSError as e:
        log.close()
        return ("unavailable", str(e))
    return (p, log, time.time(), d)


def apalache_finish(chk, h):
    if h is None:
        return
    if h[0] == "unavailable":
        chk.assumptions.append(f"Apalache could not be started ({h[1]}): the pack/unpack arithmetic is checked "
                               "by TLC on the magnitude table only")
        return
    p, log, t0, d = h
    try:
        rc = p.wait(timeout=930)
    except subprocess.TimeoutExpired:
        p.kill()
        rc = 124
    log.close()
    with open(os.path.join(d, "apalache.log"), errors="replace") as f:
        text = f.read()
    wall = round(time.time() - t0, 1)
    if rc == 0 and "The outcome is: NoError" in text:
        m = re.search(r"Total time: ([0-9.]+) sec", text)
        chk.extra["apalache"] = {"outcome": "NoError", "wall_s": float(m.group(1)) if m else wall,
                                 "what": "SpansArith.tla: Inv (round trip of pack/unpack and of the context lookup "
                                         "for 3 contexts) over unbounded integers, all initial states and one step"}
    elif "The outcome is: Error" in text or rc == 12:
        raise vlib.ToolError(f"Apalache found a counterexample to SpansArith.Inv (a bug in the specification); see {d}")
    else:
        chk.assumptions.append(f"Apalache did not finish (rc={rc} after {wall}s): the pack/unpack arithmetic is "
                               "checked by TLC on the magnitude table only")


# ---------------------------------------------------------------------------

def run(tier, seed):
    chk = Check(PROP, tier, seed)
    chk.rule = ("span scripts: one per distinct script, non-trivial = some id is stored in the table or some span "
                "lies in a context other than the first; failing programs: one per program, non-trivial = the "
                "error or its stack trace carries at least one span; renders: one per run of the binary, "
                "non-trivial = the report shows at least one location line")
    chk.assumptions = [
        "the harness resolves spans with the public SpanManager::get_span and names sources in registration order",
        "column numbers are compared only when the bytes between the line start and the span are printable ASCII "
        "(the display width of tabs, control and wide characters is the renderer's convention)",
        "the binary search of get_context_from_offset is modelled by its contract on a strictly increasing vector "
        "(EndsIncreasing is checked)",
        "programs that print std.trace output are checked for exit status, header and primary location only",
    ]
    vlib.build_harness()
    vlib.build_cli()
    with open(U.STDLIB_PATH, "rb") as f:
        stdlib = f.read()
    apal = apalache_start(tier)
    scratch = os.path.join(vlib.workdir("c16"), f"tmp{os.getpid()}")
    shutil.rmtree(scratch, ignore_errors=True)
    os.makedirs(scratch)
    try:
        t0 = time.time()
        crop = spans_part(chk, tier, seed)
        vlib.log(f"[C16] span table part {time.time()-t0:.1f}s")
        t0 = time.time()
        failing = errors_part(chk, tier, seed, stdlib)
        vlib.log(f"[C16] error span part {time.time()-t0:.1f}s")
        t0 = time.time()
        render_part(chk, tier, seed, failing, crop, stdlib, scratch)
        vlib.log(f"[C16] render part {time.time()-t0:.1f}s")
        apalache_finish(chk, apal)
    finally:
        shutil.rmtree(scratch, ignore_errors=True)
        if apal is not None and apal[0] != "unavailable" and apal[0].poll() is None:
            apal[0].kill()
    chk.exhaustive = False
    classes = {}
    for sig, _, _ in chk.violations:
        k = f"{sig.get('kind')}/{sig.get('class')}/{sig.get('msg', '')}"
        classes[k] = classes.get(k, 0) + 1
    # replay files are written for the first 25 disagreements: rare classes first
    chk.violations.sort(key=lambda v: classes[f"{v[0].get('kind')}/{v[0].get('class')}/{v[0].get('msg', '')}"])
    classes = {}
    for sig, _, _ in chk.violations:
        k = f"{sig.get('kind')}/{sig.get('class')}/{sig.get('msg', '')}"
        classes[k] = classes.get(k, 0) + 1
    chk.extra["disagreements_by_class"] = classes
    if classes:
        vlib.log(f"[C16] disagreements by class: {classes}")
    return chk.finish()


def replay(path):
    with open(path) as f:
        rp = json.load(f)
    case = rp["case"]
    if case.get("k") == "render":
        vlib.build_cli()
        d = os.path.join(vlib.workdir("c16"), f"replay{os.getpid()}")
        shutil.rmtree(d, ignore_errors=True)
        os.makedirs(d)
        try:
            main = case["args"][-1]
            data = bytes(case["src_bytes"]) if case.get("src_bytes") else case["src"].encode()
            with open(os.path.join(d, main), "wb") as f:
                f.write(data)
            for lit, content in case.get("files", {}).items():
                with open(os.path.join(d, lit), "wb") as f:
                    f.write(content.encode())
            rc, so, se, _ = run_cli((d, case["args"], case["colour"], 60))
            print(json.dumps({"what": rp["what"], "args": case["args"], "exit": rc,
                              "stderr": se.decode("utf-8", "replace")}, indent=1)[:8000])
        finally:
            shutil.rmtree(d, ignore_errors=True)
        return 0
    vlib.build_harness()
    c = {k: v for k, v in case.items() if k not in ("at", "expected", "name", "span")}
    r = run_cases([c], "c16_replay")[0]
    print(json.dumps({"what": rp["what"], "case": rp["case"], "result": r}, indent=1)[:8000])
    return 0
