"""C05 - every emitted document is well-formed and decodes to the value it came from.

spec/Encode.tla defines the JSON text of a value for every layout (std.manifestJsonEx settings,
default output, std.toString, std.manifestJsonMinified, std.manifestJson) from RFC 8259 and the
upstream std.jsonnet definitions, plus an independent RFC 8259 decoder.  TLC checks on the
specification, over the whole value universe x settings, that decode(encode(v, s)) is exactly v
(numbers incl. the sign of zero, strings code point by code point), that only visible fields
appear, in sorted order, and that no raw control character is emitted; it prints one
(value, settings, expected text) case per state.  Each case is executed by the real
implementation and compared text for text.

The same value universe is sent through std.manifestPython / manifestPythonVars / manifestTomlEx /
manifestYamlDoc / manifestYamlStream with every setting; the produced documents are decoded by the
target language's own parser (ast.literal_eval, tomllib, yaml.safe_load) and compared with the value.

The real CLI binary is run on a sample for the default output, -y and -m.

Doubles outside the exact dyadic domain of TLC (5e-324, DBL_MAX, 2^53 neighbours, seeded random
bit patterns) are checked in Python only: RFC 8259 number grammar, float(text) == the double,
and the implementation's own std.parseJson(text) == value."""
import json
import os
import re
import shutil
import struct
import subprocess
from concurrent.futures import ThreadPoolExecutor

import vlib
import render
import c05_util as U
import enc2_util
from vlib import Check, run_tlc, tlc_must_pass, run_cases

PROP = "C05"
SCRATCH = os.path.join(vlib.WORK, "c05")

FN_OF = {"multi": "default-output", "tostring": "std.toString", "ex": "std.manifestJsonEx",
         "minified": "std.manifestJsonMinified", "manifestJson": "std.manifestJson"}

FIXED_DOUBLES = [
    "5e-324", "1e-323", "2.225073858507201e-308", "2.2250738585072014e-308", "1.7976931348623157e308",
    "1.7976931348623155e308", "8.98846567431158e307", "9007199254740991", "9007199254740992", "9007199254740993",
    "9007199254740994", "9007199254740996", "4503599627370496.5", "4503599627370497.5", "0.1", "0.2",
    "0.30000000000000004", "0.3333333333333333", "0.6666666666666666", "1e21", "1e22", "1e23", "1.5e300",
    "1e-7", "1e-5", "0.000001", "123456789012345680000", "9223372036854775808", "18446744073709551616",
    "1e15", "1e16", "1e17", "4.35", "0.7", "2.5e-5", "1.0000000000000002", "0.9999999999999999",
    "3.141592653589793", "2.718281828459045", "6.02214076e23", "1.602176634e-19", "299792458",
    "4.9406564584124654e-324", "1e-320", "2.2250738585072011e-308", "17976931348623157e292",
    "100000000000000000000000000000000000000", "0.000000000000000000000000000001",
    # integer-valued doubles around the limits of the machine integer types (an integer fast path
    # in a printer is a classic place for saturation or truncation)
    "9223372036854774784", "9223372036854777856", "9300000000000000000", "9500000000000000000",
    "9999999999999999000", "10000000000000000000", "18446744073709549568", "18446744073709555712",
    "2147483647", "2147483648", "4294967295", "4294967296", "-2147483649", "-9223372036854777856",
    "-9500000000000000000", "340282366920938463463374607431768211456", "1e19", "1.8e19", "-1e19",
]


def lit(s):
    return render.str_lit(s)


def json_case(c, r):
    """(harness case, expected text) for one TLC (value, format) case."""
    v, f = c["v"], c["f"]
    name = f["name"]
    vs = U.value_expr(v, r)
    exp = U.text_of(c["text"])
    if name == "multi":
        return {"k": "eval", "src": vs, "manifest": "multi"}, exp
    if name == "tostring":
        x = r.random()
        if x < 0.4:
            return {"k": "eval", "src": f"std.toString({vs})", "manifest": "string"}, U.text_of(c["tostring"])
        if x < 0.7:
            return {"k": "eval", "src": f'"" + {vs}', "manifest": "string"}, U.text_of(c["tostring"])
        return {"k": "eval", "src": vs, "manifest": "single"}, exp
    if name == "minified":
        return {"k": "eval", "src": f"std.manifestJsonMinified({vs})", "manifest": "string"}, exp
    if name == "manifestJson":
        return {"k": "eval", "src": f"std.manifestJson({vs})", "manifest": "string"}, exp
    ind, nl, sep = U.text_of(f["indent"]), U.text_of(f["newline"]), U.text_of(f["kvsep"])
    x = r.random()
    if nl == "\n" and sep == ": " and x < 0.4:
        src = f"std.manifestJsonEx({vs}, {lit(ind)})"
    elif sep == ": " and x < 0.4:
        src = f"std.manifestJsonEx({vs}, {lit(ind)}, {lit(nl)})"
    elif x < 0.6:
        src = f"std.manifestJsonEx({vs}, {lit(ind)}, key_val_sep={lit(sep)}, newline={lit(nl)})"
    else:
        src = f"std.manifestJsonEx({vs}, {lit(ind)}, {lit(nl)}, {lit(sep)})"
    return {"k": "eval", "src": src, "manifest": "string"}, exp


def jb(b):
    return "true" if b else "false"


def other_cases(v, r, tier, prev_yaml):
    """Jobs for the non-JSON encoders and the self round trip of one value."""
    jobs = []
    vs = U.value_expr(v, r)
    pv = U.pyvalue(v)
    jobs.append({"kind": "selfrt", "fn": "std.parseJson",
                 "case": {"k": "eval", "manifest": "single",
                          "src": f"local v = {vs}; [std.parseJson(std.manifestJsonMinified(v)) == v, "
                                 f"std.parseJson(std.manifestJsonEx(v, \"\\t\")) == v, "
                                 f"std.parseJson(std.manifestJsonEx(v, \" \", \"\\n\", \" : \")) == v]"},
                 "exp": "[true, true, true]", "v": v})
    jobs.append({"kind": "python", "fn": "std.manifestPython", "pv": pv,
                 "case": {"k": "eval", "manifest": "string", "src": f"std.manifestPython({vs})"}})
    if v["t"] == "obj":
        keys = U.visible_keys(v)
        if all(U.IDENT_RE.match(k) and k not in U.PY_KEYWORDS for k in keys):
            jobs.append({"kind": "pythonvars", "fn": "std.manifestPythonVars", "pv": pv,
                         "case": {"k": "eval", "manifest": "string", "src": f"std.manifestPythonVars({vs})"}})
        else:
            jobs.append({"kind": "outside", "why": "pythonvars: field names are not Python identifiers"})
        if U.has_null(v):
            jobs.append({"kind": "outside", "why": "toml: value contains null"})
        else:
            indents = ["", "  ", "\t"] if tier == "thorough" else [r.choice(["", "  ", "\t"])]
            for ind in indents:
                if ind == "  " and r.random() < 0.5:
                    src = f"std.manifestToml({vs})"
                else:
                    src = f"std.manifestTomlEx({vs}, {lit(ind)})"
                jobs.append({"kind": "toml", "fn": "std.manifestTomlEx", "pv": pv,
                             "case": {"k": "eval", "manifest": "string", "src": src}})
    else:
        jobs.append({"kind": "outside", "why": "toml/pythonvars: top level is not an object"})
    if U.has_string_ending_in_newline(v):
        jobs.append({"kind": "outside", "why": "yaml: a string ends in a newline (block scalar)"})
    else:
        combos = [(a, q) for a in (False, True) for q in (True, False)]
        if tier != "thorough":
            combos = r.sample(combos, 2)
        for iaio, qk in combos:
            x = r.random()
            if not iaio and qk and x < 0.5:
                src = f"std.manifestYamlDoc({vs})"
            elif x < 0.5:
                src = f"std.manifestYamlDoc({vs}, quote_keys={jb(qk)}, indent_array_in_object={jb(iaio)})"
            else:
                src = f"std.manifestYamlDoc({vs}, {jb(iaio)}, {jb(qk)})"
            jobs.append({"kind": "yaml", "fn": "std.manifestYamlDoc", "pv": pv, "settings": [iaio, qk],
                         "plain_keys": not qk, "v": v,
                         "case": {"k": "eval", "manifest": "string", "src": src}})
        # the implementation's own YAML reader must read its own writer's documents back
        iaio, qk = r.random() < 0.5, r.random() < 0.5
        jobs.append({"kind": "selfrt", "fn": "std.parseYaml",
                     "case": {"k": "eval", "manifest": "single",
                              "src": f"local v = {vs}; std.parseYaml(std.manifestYamlDoc(v, {jb(iaio)}, {jb(qk)})) == v"},
                     "exp": "true", "v": v})
        iaio, cde, qk = r.random() < 0.5, r.random() < 0.5, r.random() < 0.5
        docs = [v] if prev_yaml is None or r.random() < 0.3 else [prev_yaml, v]
        if r.random() < 0.05:
            # upstream's definition ('---\n' + join('\n---\n', docs) + '\n...\n') yields one empty document for []:
            # the stdlib definition itself does not round-trip the empty stream, so it is not decided here
            jobs.append({"kind": "outside", "why": "yamlstream: empty array (the stdlib definition emits one empty document)"})
            return jobs
        arr = "[" + ", ".join(U.value_expr(d, r) for d in docs) + "]"
        if cde and qk and not iaio and r.random() < 0.5:
            src = f"std.manifestYamlStream({arr})"
        else:
            src = f"std.manifestYamlStream({arr}, {jb(iaio)}, {jb(cde)}, {jb(qk)})"
        jobs.append({"kind": "yamlstream", "fn": "std.manifestYamlStream", "pv": [U.pyvalue(d) for d in docs],
                     "settings": [iaio, cde, qk], "cde": cde,
                     "case": {"k": "eval", "manifest": "string", "src": src}})
    return jobs


def value_controls(v):
    """Control characters (< U+0020) occurring in the strings and visible keys of a value."""
    cps = set()
    for x in U.visible_walk(v):
        if x["t"] == "str":
            cps.update(c for c in x["c"] if c < 0x20)
        elif x["t"] == "obj":
            for f in x["f"]:
                if not f["h"]:
                    cps.update(c for c in f["k"] if c < 0x20)
    return ",".join("U+%04X" % c for c in sorted(cps))


def raw_controls(doc):
    return sorted({"U+%04X" % ord(ch) for ch in doc if ord(ch) < 0x20 and ch not in "\n\t"})


def double_jobs(tier, seed):
    r = vlib.rng(seed, "c05-doubles")
    lits = list(FIXED_DOUBLES)
    n = 300 if tier == "quick" else 30000
    while len(lits) < len(FIXED_DOUBLES) + n:
        bits = r.getrandbits(64)
        if r.random() < 0.2:                       # subnormals and the smallest normals
            bits &= ~(0x7FE << 52)
        x = struct.unpack("<d", struct.pack("<Q", bits))[0]
        if x != x or x in (float("inf"), float("-inf")):
            continue
        lits.append(repr(abs(x)) if abs(x) != 0 else "0")
        if x < 0 or (x == 0 and str(x).startswith("-")):
            lits[-1] = "-" + lits[-1]
    jobs = []
    for t in lits:
        t2 = t.replace("e+", "e") if r.random() < 0.5 else t
        src = (f"local v = {('(' + t2 + ')') if t2.startswith('-') else t2}; local t = std.manifestJsonMinified(v); "
               f"[t, std.parseJson(t) == v, std.toString(v), std.manifestJsonEx([v], \"\", \"\", \":\"), "
               f"std.manifestPython(v), std.manifestYamlDoc(v), std.manifestTomlEx({{x: v}}, \"\")]")
        jobs.append({"kind": "double", "fn": "number-printer", "lit": t,
                     "case": {"k": "eval", "manifest": "single", "src": src}})
    return jobs


# ---------------------------------------------------------------------------

def run_cli(args, cwd=None):
    try:
        # a kill by the limit on a loaded machine is not evidence about the code: one retry with a long limit
        for limit in ("20", "180"):
            p = subprocess.run(["timeout", limit, vlib.CLI_BIN] + args, capture_output=True, cwd=cwd)
            if p.returncode != 124:
                break
    except OSError as e:                       # e.g. argument list too long: not a verdict
        return None, b"", str(e).encode()
    return p.returncode, p.stdout, p.stderr


def cli_part(chk, multi_of, tier, seed):
    """Default output, -y and -m through the shipped binary on a sample of the universe."""
    r = vlib.rng(seed, "c05-cli")
    shutil.rmtree(os.path.join(SCRATCH, "cli"), ignore_errors=True)
    base = vlib.workdir("c05", "cli")
    keys = sorted(multi_of.keys())
    n = 40 if tier == "quick" else 500
    tasks = []
    for i in range(n):
        k = r.choice(keys)
        v, txt = multi_of[k]
        tasks.append(("default", [v], [txt], i))
    for i in range(n):
        ks = [r.choice(keys) for _ in range(r.randrange(0, 4))]
        tasks.append(("yaml-stream", [multi_of[k][0] for k in ks], [multi_of[k][1] for k in ks], i))
    names = ["f1", "\u00e9.json", "a b", "z.txt", "Z"]
    for i in range(n):
        cnt = r.randrange(0, 4)
        ks = [r.choice(keys) for _ in range(cnt)]
        tasks.append(("multi-file", [multi_of[k][0] for k in ks], [multi_of[k][1] for k in ks], i))

    def one(task):
        mode, vs, txts, i = task
        rr = vlib.rng(seed, f"c05-cli-{mode}-{i}")
        if mode == "default":
            src = U.value_expr(vs[0], rr)
            rc, out, err = run_cli(["-e", src])
            return task, src, rc, out, err, txts[0].encode() + b"\n", None
        if mode == "yaml-stream":
            src = "[" + ", ".join(U.value_expr(v, rr) for v in vs) + "]"
            rc, out, err = run_cli(["-y", "-e", src])
            exp = "".join("---\n" + t + "\n" for t in txts)
            if txts:
                exp += "...\n"
            return task, src, rc, out, err, exp.encode(), None
        d = os.path.join(base, f"m{i}")
        os.makedirs(d)
        nm = rr.sample(names, len(vs))
        flds = [render.str_lit(k) + ": " + U.value_expr(v, rr) for k, v in zip(nm, vs)]
        hidden = rr.choice(keys)
        flds.append('"hidden.json":: ' + U.value_expr(multi_of[hidden][0], rr))
        rr.shuffle(flds)
        src = "{" + ", ".join(flds) + "}"
        rc, out, err = run_cli(["-m", d, "-e", src])
        files = {}
        for fn in os.listdir(d):
            with open(os.path.join(d, fn), "rb") as fh:
                files[fn] = fh.read()
        expf = {k: t.encode() + b"\n" for k, t in zip(nm, txts)}
        exp_out = "".join(os.path.join(d, k) + "\n" for k in sorted(nm)).encode()
        return task, src, rc, out, err, exp_out, (files, expf)

    with ThreadPoolExecutor(max_workers=8) as ex:
        results = list(ex.map(one, tasks))
    cnt = {"default": 0, "yaml-stream": 0, "multi-file": 0}
    for task, src, rc, out, err, exp, fl in results:
        mode = task[0]
        cnt[mode] += 1
        chk.count(key="cli:" + mode + ":" + src, nontrivial=True)
        payload = {"cli": mode, "src": src, "expected": exp.decode("utf-8", "replace")}
        if rc is None or rc == 124:            # not run / killed twice by the time limit: resource exhaustion
            chk.outside += 1
            continue
        if rc != 0:
            cls = "crash" if rc >= 101 or rc < 0 else "error"
            chk.disagree({"kind": "cli", "fn": mode, "class": cls},
                         f"rsjsonnet ({mode}) on `{src[:200]}` exits {rc}: {err.decode('utf-8', 'replace')[:300]}", payload)
            continue
        if out != exp:
            i, e, g = U.first_diff(exp.decode("utf-8", "replace"), out.decode("utf-8", "replace"))
            chk.disagree({"kind": "cli", "fn": mode, "class": "text-mismatch", "got": g},
                         f"rsjsonnet ({mode}) on `{src[:200]}`: stdout differs from the specification at offset {i} "
                         f"(expected {e}, got {g})", payload)
            continue
        if fl is not None:
            files, expf = fl
            if files != expf:
                bad = sorted(set(files) ^ set(expf))
                sig = {"kind": "cli", "fn": mode, "class": "file-set-mismatch"}
                what = f"set of written files differs: {bad[:3]}"
                if not bad:
                    k = [k for k in sorted(expf) if files[k] != expf[k]][0]
                    i, e, g = U.first_diff(expf[k].decode("utf-8", "replace"), files[k].decode("utf-8", "replace"))
                    sig = {"kind": "cli", "fn": mode, "class": "text-mismatch", "got": g}
                    what = f"file {k!r} differs from the specification at offset {i} (expected {e}, got {g})"
                    payload = dict(payload, file=k, expected_file=expf[k].decode("utf-8", "replace"))
                chk.disagree(sig, f"rsjsonnet -m on `{src[:200]}`: {what}", payload)
    shutil.rmtree(base, ignore_errors=True)
    chk.extra["cli_runs"] = cnt
    return len(results)


# ---------------------------------------------------------------------------

def judge_json(chk, job, res, stats):
    case, exp, fn = job["case"], job["exp"], job["fn"]
    payload = dict(case, expected=exp, fn=fn)
    if vlib.is_crash(res):
        chk.disagree({"kind": "json", "fn": fn, "class": "crash"},
                     f"`{case['src'][:300]}` crashed: {vlib.crash_desc(res)}", payload)
        return "crash"
    if "err" in res:
        chk.disagree({"kind": "json", "fn": fn, "class": "error"},
                     f"`{case['src'][:300]}` fails ({res['err'].get('kind')}: {str(res['err'].get('msg'))[:120]}); "
                     f"the specification gives a document", payload)
        return "error"
    got = res["ok"]
    if not isinstance(got, str):
        chk.disagree({"kind": "json", "fn": fn, "class": "not-a-string"},
                     f"`{case['src'][:300]}` does not return a string", payload)
        return "not-a-string"
    if got == exp:
        return "agree"
    # classify with an independent strict JSON reading
    i, e, g = U.first_diff(exp, got)
    raw = job.get("raw_string", False)
    cls = "text-mismatch"
    if not raw:
        try:
            val, srt = U.json_strict(got)
            if not U.same(job["pv"], val, signed_zero=True):
                cls = "wrong-value"
            elif not srt:
                cls = "unsorted-keys"
            else:
                cls = "layout"
        except U.NotJson as ex:
            cls = "invalid-json"
            payload["json_error"] = str(ex)[:200]
    chk.disagree({"kind": "json", "fn": fn, "class": cls, "got": g},
                 f"`{case['src'][:300]}` produces {got[:120]!r}; the specification says {exp[:120]!r} "
                 f"(first difference at offset {i}: expected {e}, got {g}; class {cls})", payload)
    return cls


def judge_other(chk, job, res):
    kind, fn, case = job["kind"], job["fn"], job["case"]
    payload = dict(case, fn=fn, kind=kind, expected_value=job.get("pv"))
    if vlib.is_crash(res):
        chk.disagree({"kind": kind, "fn": fn, "class": "crash"},
                     f"`{case['src'][:300]}` crashed: {vlib.crash_desc(res)}", payload)
        return "crash"
    if "err" in res:
        sig = {"kind": "json" if kind == "selfrt" else kind, "fn": fn, "class": "error"}
        if kind == "selfrt":
            sig["ctl"] = value_controls(job["v"])
        chk.disagree(sig, f"`{case['src'][:300]}` fails ({res['err'].get('kind')}: {str(res['err'].get('msg'))[:120]}); "
                          f"the value is inside the function's domain", payload)
        return "error"
    doc = res["ok"]
    if kind == "selfrt":
        if doc != job["exp"]:
            chk.disagree({"kind": "json", "fn": fn, "class": "self-roundtrip", "ctl": value_controls(job["v"])},
                         f"`{case['src'][:300]}` gives {doc}: {fn} does not read the emitted document back "
                         f"as the same value", dict(payload, expected=job["exp"]))
            return "self-roundtrip"
        return "agree"
    if not isinstance(doc, str):
        chk.disagree({"kind": kind, "fn": fn, "class": "not-a-string"},
                     f"`{case['src'][:300]}` does not return a string", payload)
        return "not-a-string"
    dec = {"python": U.decode_python, "pythonvars": U.decode_python_vars, "toml": U.decode_toml,
           "yaml": U.decode_yaml, "yamlstream": U.decode_yaml_all}[kind]
    yaml11_breaks = kind in ("yaml", "yamlstream") and any(ch in doc for ch in "\u2028\u2029")
    try:
        got = dec(doc)
    except Exception as ex:  # the target language's parser rejects the document
        if yaml11_breaks:
            # U+2028 / U+2029 are line breaks in YAML 1.1 (PyYAML) but ordinary characters in YAML 1.2
            chk.outside += 1
            return "outside-yaml11-linebreak"
        rc = raw_controls(doc)
        sig = {"kind": kind, "fn": fn, "class": "undecodable", "parser": type(ex).__name__}
        if rc:
            sig["raw"] = ",".join(rc)
        bad = sorted({"U+%04X" % ord(ch) for ch in doc if ord(ch) in (0xFFFE, 0xFFFF)})
        if bad and kind in ("yaml", "yamlstream"):
            sig["raw"] = ",".join(rc + bad)
        chk.disagree(sig, f"`{case['src'][:300]}` produces {doc[:160]!r}, which the {kind} parser rejects: "
                          f"{str(ex)[:160]!r}", dict(payload, document=doc))
        return "undecodable"
    if not U.same(job["pv"], got) and yaml11_breaks:
        chk.outside += 1
        return "outside-yaml11-linebreak"
    if not U.same(job["pv"], got):
        chk.disagree({"kind": kind, "fn": fn, "class": "wrong-value"},
                     f"`{case['src'][:300]}` produces {doc[:160]!r}, which the {kind} parser reads as {got!r:.200} "
                     f"instead of {job['pv']!r:.200}", dict(payload, document=doc))
        return "wrong-value"
    return "agree"


def judge_double(chk, job, res):
    case, t = job["case"], job["lit"]
    payload = dict(case, fn="number-printer", literal=t)
    if vlib.is_crash(res):
        chk.disagree({"kind": "number", "fn": "number-printer", "class": "crash"},
                     f"`{case['src'][:200]}` crashed: {vlib.crash_desc(res)}", payload)
        return "crash"
    if "err" in res:
        chk.disagree({"kind": "number", "fn": "number-printer", "class": "error"},
                     f"`{case['src'][:200]}` fails: {str(res['err'])[:200]}", payload)
        return "error"
    try:
        arr = json.loads(res["ok"])
        txt, rt, ts, ex, py, ya, to = arr
    except Exception as e:
        chk.disagree({"kind": "number", "fn": "number-printer", "class": "invalid-json"},
                     f"`{case['src'][:200]}`: std.toString output is not JSON: {e}", payload)
        return "invalid-json"
    want = float(t)
    problems = []
    if not U.NUM_RE.fullmatch(txt):
        problems.append(("grammar", f"{txt[:60]!r} does not match the RFC 8259 number grammar"))
    else:
        back = float(txt)
        if back != want or str(back)[0] != str(want)[0]:
            problems.append(("not-identical-double", f"{txt[:60]!r} reads back as {back!r}, not {want!r}"))
    if rt is not True:
        problems.append(("self-roundtrip", f"std.parseJson({txt[:60]!r}) != the number"))
    if ts != txt or ex != "[" + txt + "]" or py != txt or ya != txt or to != "x = " + txt:
        problems.append(("printers-differ", f"number text differs between encoders: {[txt, ts, ex, py, ya, to]!r:.200}"))
    for cls, what in problems:
        chk.disagree({"kind": "number", "fn": "number-printer", "class": cls},
                     f"number literal {t}: {what}", payload)
    return problems[0][0] if problems else "agree"


def run(tier, seed):
    chk = Check(PROP, tier, seed)
    chk.rule = ("distinct = (Jsonnet program text, manifest mode) of an executed case; non-trivial = the value is not a "
                "bare null / boolean (it contains a number, a string, an array or an object, i.e. something the "
                "escaper, number printer, layout or field ordering acts on)")
    chk.assumptions = [
        "rendering of specification values as Jsonnet source (lib/c05_util.py value_expr, lib/render.py)",
        "number text inside the exact domain = finite decimal expansion in positional notation (universe keeps "
        "decimal exponents in -4..16 where the Jsonnet reference '%.17g' and positional notation coincide)",
        "doubles outside the dyadic 31-bit domain (5e-324, DBL_MAX, 2^53 neighbours, seeded random bit patterns) are "
        "NOT decided by TLC: checked in Python for RFC 8259 number grammar, float(text) == the literal's double and "
        "the implementation's own std.parseJson(text) == value",
        "Python / TOML / YAML documents are decoded by python3 ast.literal_eval, tomllib and PyYAML safe_load "
        "(YAML 1.1 resolver); integers of these languages carry no sign of zero, so -0 is compared as 0 there",
        "the specification decoder agrees with python3's json module (strict) on every expected text (checked each run)",
    ]
    os.makedirs(SCRATCH, exist_ok=True)
    vlib.build_harness()
    vlib.build_cli()
    cfg = "MC_Encode_quick.cfg" if tier == "quick" else "MC_Encode_thorough.cfg"
    r = vlib.rng(seed, "c05")
    jobs = []
    values = {}          # canonical json of value -> value
    multi_of = {}
    spec_texts = 0
    per_mode = {}
    # (-coverage exhausts the heap on the recursive decoder, so it is off; vacuity is shown by the per-mode and
    #  per-outcome counts below and by the decoder accept/reject ASSUMEs of MC_Encode)
    res = run_tlc("MC_Encode", cfg, "c05_" + tier, workers=8, coverage=False)
    tlc_must_pass(res, "Encode laws / emission")
    chk.add_tlc(res, "round-trip / sorted-visible / well-formed laws + case emission "
                     "(chars, nums, struct, keys sub-universes x settings)")
    enc2 = enc2_util.start(tier)      # TLC on spec/MC_Encode2.tla, in the background while the cases below run
    tlc_cases = []
    for c in res.lines("CASE"):
        c["v"] = U.norm_value(c["v"])
        tlc_cases.append((json.dumps([c["u"], c["v"], c["f"]], sort_keys=True), c))
    tlc_cases.sort(key=lambda kc: kc[0])          # TLC's output order depends on worker scheduling
    for _, c in tlc_cases:
        label = c["u"]
        per_mode[label] = per_mode.get(label, 0) + 1
        v = c["v"]
        key = json.dumps(v, sort_keys=True)
        values.setdefault(key, (v, label))
        pv = U.pyvalue(v)
        # the specification's own text must be what python's strict json reads as the value
        txt = U.text_of(c["text"])
        try:
            val, srt = U.json_strict(txt)
        except U.NotJson as e:
            raise vlib.ToolError(f"specification text is not JSON for python: {txt!r}: {e}")
        if not (srt and U.same(pv, val, signed_zero=True)):
            raise vlib.ToolError(f"specification text {txt!r} reads as {val!r} in python, expected {pv!r}")
        spec_texts += 1
        if c["f"]["name"] == "multi" and label != "keys":
            multi_of[key] = (v, txt)
        for _ in range(1 if tier == "quick" else 3):
            case, exp = json_case(c, r)
            raw_string = c["f"]["name"] == "tostring" and v["t"] == "str" and case["manifest"] == "string"
            jobs.append({"kind": "json", "fn": FN_OF[c["f"]["name"]], "case": case, "exp": exp, "pv": pv,
                         "v": v, "raw_string": raw_string})
    prev_yaml = None
    for key in sorted(values):
        v, label = values[key]
        js = other_cases(v, r, tier, prev_yaml)
        for j in js:
            j.setdefault("v", v)
        jobs.extend(js)
        if not U.has_string_ending_in_newline(v):
            prev_yaml = v
    jobs.extend(double_jobs(tier, seed))

    runnable = [j for j in jobs if "case" in j]
    results = run_cases([j["case"] for j in runnable], "c05", timeout_ms=10000)
    classes = {}
    by_fn = {}
    info_yaml12 = 0
    for j in jobs:
        if j["kind"] == "outside":
            chk.outside += 1
            classes[("outside", j["why"].split(":")[0])] = classes.get(("outside", j["why"].split(":")[0]), 0) + 1
    for j, res in zip(runnable, results):
        chk.count(key=j["case"]["src"] + "\x00" + j["case"]["manifest"],
                  nontrivial=(j["kind"] == "double") or U.nontrivial(j["v"]))
        if j["kind"] == "json":
            out = judge_json(chk, j, res, None)
        elif j["kind"] == "double":
            out = judge_double(chk, j, res)
        else:
            out = judge_other(chk, j, res)
            if j["kind"] == "yaml" and j.get("plain_keys") and out == "agree":
                # information only: keys written plain that the YAML 1.2 core schema would not read as strings
                if any(U.yaml12_core_nonstring(k) and re.search(r"(^|\n)[ -]*" + re.escape(k) + ":", res["ok"])
                       for k in U.all_keys_deep(j["v"]) if re.fullmatch(r"[0-9A-Za-z/_.\-]+", k)):
                    info_yaml12 += 1
        classes[(j["kind"], out)] = classes.get((j["kind"], out), 0) + 1
        by_fn[j["fn"]] = by_fn.get(j["fn"], 0) + 1
    ncli = cli_part(chk, multi_of, tier, seed)
    chk.traces_validated = len(runnable) + ncli
    chk.exhaustive = True
    chk.extra["universe"] = {"distinct_values": len(values), "json_cases_from_tlc": spec_texts,
                             "tlc_cases_per_sub_universe": per_mode,
                             "spec_texts_cross_checked_with_python_json": spec_texts}
    chk.extra["outcome_classes"] = {f"{k[0]}:{k[1]}": n for k, n in sorted(classes.items())}
    chk.extra["cases_by_function"] = dict(sorted(by_fn.items()))
    chk.extra["info_yaml_plain_keys_retagged_by_yaml12_core_schema"] = info_yaml12
    chk.extra["exhaustive_note"] = ("the TLC universes (chars / nums / struct / keys x settings) are enumerated completely; "
                                    "the doubles outside the exact domain and the CLI runs are seeded samples")
    sigs = {}
    for sig, what, _ in chk.violations:
        k = json.dumps(sig, sort_keys=True)
        sigs.setdefault(k, [0, what[:400]])
        sigs[k][0] += 1
    chk.extra["disagreement_signatures"] = [{"sig": json.loads(k), "count": n, "example": w}
                                            for k, (n, w) in sorted(sigs.items())]
    picks = [j for j in jobs if j["kind"] == "json"]
    for i in (0, len(picks) // 3, (2 * len(picks)) // 3):
        chk.sample({"src": picks[i]["case"]["src"], "manifest": picks[i]["case"]["manifest"],
                    "expected": picks[i]["exp"]})
    for kind in ("toml", "yaml", "double"):
        for j, res in zip(runnable, results):
            if j["kind"] == kind and "ok" in res:
                chk.sample({"src": j["case"]["src"][:300], "document": str(res["ok"])[:300]})
                break
    # spec/Encode2.tla: manifestIni, manifestXmlJsonml, manifestYamlStream (stream level), deepJoin, lines, ...
    enc2_util.extra_manifesters(chk, tier, seed, enc2)
    return chk.finish()


def replay(path):
    with open(path) as f:
        rp = json.load(f)
    case = rp["case"]
    if "enc2" in case:
        return enc2_util.replay(case)
    if "cli" in case:
        vlib.build_cli()
        args = {"default": [], "yaml-stream": ["-y"], "multi-file": None}[case["cli"]]
        if args is None:
            d = vlib.workdir("c05", "replay-m")
            args = ["-m", d]
        rc, out, err = run_cli(args + ["-e", case["src"]])
        agrees = rc == 0 and out.decode("utf-8", "replace") == case.get("expected")
        res = {"src": case["src"], "expected_stdout": case.get("expected"), "rc": rc,
               "stdout": out.decode("utf-8", "replace"), "stderr": err.decode("utf-8", "replace")}
        if case["cli"] == "multi-file":
            res["files"] = {}
            for fn in sorted(os.listdir(d)):
                with open(os.path.join(d, fn), "rb") as fh:
                    res["files"][fn] = fh.read().decode("utf-8", "replace")
            if "file" in case:
                agrees = res["files"].get(case["file"]) == case.get("expected_file")
            else:
                agrees = rc == 0
            shutil.rmtree(d, ignore_errors=True)
        res["agrees"] = agrees
        print(json.dumps(res, indent=1))
        return 0 if agrees else 1
    vlib.build_harness()
    hc = {k: case[k] for k in ("k", "src", "manifest") if k in case}
    r = run_cases([hc], "c05_replay")[0]
    out = {"src": hc["src"], "manifest": hc.get("manifest"),
           "result": {k: r[k] for k in r if k in ("ok", "err", "panic", "crash", "timeout")}}
    for k in ("expected", "expected_value", "literal", "fn", "kind"):
        if k in case:
            out[k] = case[k]
    agrees = None
    if "expected" in case:
        agrees = r.get("ok") == case["expected"]
    elif case.get("kind") in ("python", "pythonvars", "toml", "yaml", "yamlstream") and isinstance(r.get("ok"), str):
        dec = {"python": U.decode_python, "pythonvars": U.decode_python_vars, "toml": U.decode_toml,
               "yaml": U.decode_yaml, "yamlstream": U.decode_yaml_all}[case["kind"]]
        try:
            got = dec(r["ok"])
            out["decoded"] = repr(got)
            agrees = U.same(_floats(case.get("expected_value")), got)
        except Exception as ex:
            out["parser_error"] = str(ex)[:300]
            agrees = False
    elif "literal" in case:
        chk = Check(PROP, "replay", 0)
        agrees = judge_double(chk, {"case": hc, "lit": case["literal"]}, r) == "agree"
        out["problems"] = [w for _, w, _ in chk.violations]
    else:
        agrees = "ok" in r
    out["agrees"] = agrees
    print(json.dumps(out, indent=1, ensure_ascii=True))
    return 0 if agrees else 1


def _floats(x):
    if isinstance(x, bool) or x is None or isinstance(x, str):
        return x
    if isinstance(x, (int, float)):
        return float(x)
    if isinstance(x, list):
        return [_floats(y) for y in x]
    return {k: _floats(y) for k, y in x.items()}
