//! vharness: executes specification-generated cases against the real
//! rsjsonnet crates and reports what was observed, one JSON line per case.
//!
//! usage: vharness exec <cases.ndjson> <out.ndjson> [--start N] [--timeout-ms T]
//!
//! Every case is run under `catch_unwind`; a panic is reported as data
//! (`{"i":..,"panic":"..."}`). A watchdog thread reports a case that
//! exceeds the time limit as `{"i":..,"timeout":true}` and exits with status 3
//! so the driver can restart after it. A native crash (abort, stack overflow)
//! kills this process; the driver attributes it to the first case without a
//! result line.

use std::io::{BufRead, Write};
use std::sync::atomic::{AtomicI64, AtomicU64, Ordering};
use std::sync::{Arc, Mutex};

use serde_json::{Value as J, json};

mod evalcase;
mod heapcase;
mod histcase;
mod lexcase;
mod parsecase;
mod sesscase;
mod spancase;

thread_local! {
    static LAST_PANIC: std::cell::RefCell<Option<String>> = const { std::cell::RefCell::new(None) };
}

fn now_ms() -> u64 {
    std::time::SystemTime::now()
        .duration_since(std::time::UNIX_EPOCH)
        .unwrap()
        .as_millis() as u64
}

fn run_case(case: &J) -> J {
    match case.get("k").and_then(|k| k.as_str()) {
        Some("heap") => heapcase::run(case),
        Some("eval") => evalcase::run(case),
        Some("hist") => histcase::run(case),
        Some("sess") => sesscase::run(case),
        Some("lex") => lexcase::run(case),
        Some("parse") => parsecase::run(case),
        Some("spans") => spancase::run(case),
        other => json!({"tool_error": format!("unknown case kind {other:?}")}),
    }
}

fn main() {
    let args: Vec<String> = std::env::args().collect();
    if args.len() < 4 || args[1] != "exec" {
        eprintln!("usage: vharness exec <cases.ndjson> <out.ndjson> [--start N] [--timeout-ms T]");
        std::process::exit(2);
    }
    let mut start = 0usize;
    let mut timeout_ms = 10_000u64;
    let mut i = 4;
    while i < args.len() {
        match args[i].as_str() {
            "--start" => {
                start = args[i + 1].parse().unwrap();
                i += 2;
            }
            "--timeout-ms" => {
                timeout_ms = args[i + 1].parse().unwrap();
                i += 2;
            }
            a => {
                eprintln!("unknown argument {a}");
                std::process::exit(2);
            }
        }
    }

    std::panic::set_hook(Box::new(|info| {
        let msg = if let Some(s) = info.payload().downcast_ref::<&str>() {
            (*s).to_string()
        } else if let Some(s) = info.payload().downcast_ref::<String>() {
            s.clone()
        } else {
            "<non-string panic payload>".to_string()
        };
        let loc = info
            .location()
            .map(|l| format!("{}:{}", l.file(), l.line()))
            .unwrap_or_default();
        LAST_PANIC.with(|p| *p.borrow_mut() = Some(format!("{msg} @ {loc}")));
    }));

    let input = std::io::BufReader::new(std::fs::File::open(&args[2]).expect("open cases"));
    let out = Arc::new(Mutex::new(
        std::fs::OpenOptions::new()
            .create(true)
            .append(true)
            .open(&args[3])
            .expect("open out"),
    ));

    let cur_case = Arc::new(AtomicI64::new(-1));
    let cur_started = Arc::new(AtomicU64::new(0));
    {
        let out = out.clone();
        let cur_case = cur_case.clone();
        let cur_started = cur_started.clone();
        std::thread::spawn(move || {
            loop {
                std::thread::sleep(std::time::Duration::from_millis(50));
                let c = cur_case.load(Ordering::SeqCst);
                let st = cur_started.load(Ordering::SeqCst);
                if c >= 0 && st > 0 && now_ms().saturating_sub(st) > timeout_ms {
                    // make sure it is still the same case
                    if cur_case.load(Ordering::SeqCst) == c {
                        let mut f = out.lock().unwrap();
                        let _ = writeln!(f, "{}", json!({"i": c, "timeout": true}));
                        let _ = f.flush();
                        std::process::exit(3);
                    }
                }
            }
        });
    }

    // Run the cases on a thread with a big stack so that deep-but-legal native
    // recursion in the parser/analyzer is not limited by the harness itself:
    // 8 MiB is what the CLI's main thread gets.
    let worker = std::thread::Builder::new()
        .stack_size(8 * 1024 * 1024)
        .spawn(move || {
            for (idx, line) in input.lines().enumerate() {
                let line = line.expect("read case line");
                if idx < start || line.trim().is_empty() {
                    continue;
                }
                let case: J = match serde_json::from_str(&line) {
                    Ok(c) => c,
                    Err(e) => {
                        let mut f = out.lock().unwrap();
                        writeln!(f, "{}", json!({"i": idx, "tool_error": format!("bad case json: {e}")}))
                            .unwrap();
                        continue;
                    }
                };
                cur_started.store(now_ms(), Ordering::SeqCst);
                cur_case.store(idx as i64, Ordering::SeqCst);
                let t0 = std::time::Instant::now();
                let res = std::panic::catch_unwind(std::panic::AssertUnwindSafe(|| run_case(&case)));
                cur_case.store(-1, Ordering::SeqCst);
                let mut res = match res {
                    Ok(r) => r,
                    Err(_) => {
                        let msg = LAST_PANIC
                            .with(|p| p.borrow_mut().take())
                            .unwrap_or_else(|| "<unknown panic>".into());
                        // leave hooks in a clean state
                        let _ = rsjsonnet_lang::verif::take_events();
                        rsjsonnet_lang::verif::set_gc_schedule(rsjsonnet_lang::verif::GcSchedule::Default);
                        json!({"panic": msg})
                    }
                };
                res["i"] = json!(idx);
                res["us"] = json!(t0.elapsed().as_micros() as u64);
                let mut f = out.lock().unwrap();
                writeln!(f, "{res}").unwrap();
                f.flush().unwrap();
            }
        })
        .unwrap();
    worker.join().unwrap();
}
