//! Replays an operation script on the real collector through the scripted
//! driver (`rsjsonnet_lang::verif::HeapDriver`) and reports, after every
//! operation, which nodes still exist and whether every handle the script
//! still holds can be viewed.

use rsjsonnet_lang::verif::{HeapDriver, HeapError};
use serde_json::{Value as J, json};

fn err_str(e: &HeapError) -> String {
    match e {
        HeapError::Unreachable(i) => format!("unreachable:{i}"),
        HeapError::NoSuch => "nosuch".into(),
        HeapError::Destroyed(i) => format!("destroyed:{i}"),
    }
}

pub fn run(case: &J) -> J {
    let ops = case["ops"].as_array().expect("ops");
    let mut d = HeapDriver::new();
    let mut obs = Vec::new();
    for op in ops {
        let name = op[0].as_str().expect("op name");
        let a = op.get(1).and_then(|v| v.as_u64()).unwrap_or(0) as usize;
        let b = op.get(2).and_then(|v| v.as_u64()).unwrap_or(0) as usize;
        let r: Result<(), HeapError> = match name {
            "alloc" => {
                d.alloc(a);
                Ok(())
            }
            "alloc_view" => {
                d.alloc_view(a);
                Ok(())
            }
            "add_edge" => d.add_edge(a, b),
            "del_edge" => d.del_edge(a, b),
            "add_ext" => d.add_ext(a),
            "add_view" => d.add_view(a),
            "drop_ext" => d.drop_ext(a),
            "drop_view" => d.drop_view(a),
            "gc" => {
                d.gc();
                Ok(())
            }
            other => panic!("unknown heap op {other}"),
        };
        let reach = d.reachable();
        obs.push(json!({
            "err": r.as_ref().err().map(err_str),
            "live": d.live_ids(),
            "n": d.num_objects(),
            "reach": reach.as_ref().ok().map(|s| s.iter().copied().collect::<Vec<_>>()),
            "reach_err": reach.as_ref().err().map(err_str),
        }));
    }
    json!({"obs": obs})
}
