//! Case kind `"parse"` (property C15): lexes and parses one source text with the
//! public lexer / parser API (the call sequence of `Program::load_source`) and
//! reports the syntax tree as a generic JSON tree, or the syntax error.
//!
//! input : `{"k":"parse","src":"...","full":bool}`
//! output: `{"tokens":[[start,end],...], "eof":[start,end], "ast": NODE}` (full) or
//!         `{"tokens":[...], "eof":[...], "tree": TEXT}` (default; TEXT = `canon(NODE)`, see below)
//!      or `{"tokens":[...], "eof":[..]|null, "err":{"stage":"lex"|"parse","start":..,"end":..,
//!           "kind":..,"instead":..,"expected":[..]}}`
//!
//! NODE = `{"n": kind, "v": text, "c": [NODE...], "s": start|null, "e": end|null}`.
//! Every `SpanId` the public `ast` types carry is resolved through
//! `SpanManager::get_span`; structures that carry no span of their own
//! (bind, param, arg, member, comprehension clause) have `"s": null`.
//! `canon(NODE)` = `_` for kind "none", otherwise kind, `:` + JSON string of v when v is not
//! empty, `@start-end` when the node has a span, `(` children separated by `,` `)` when it
//! has children.
//! `tokens` are the spans of the tokens of the input without the end-of-file
//! token, `eof` is the span of the end-of-file token.

use rsjsonnet_lang::arena::Arena;
use rsjsonnet_lang::ast;
use rsjsonnet_lang::interner::StrInterner;
use rsjsonnet_lang::lexer::{LexError, Lexer};
use rsjsonnet_lang::parser::{ParseError, Parser};
use rsjsonnet_lang::span::{SpanId, SpanManager};
use rsjsonnet_lang::token::TokenKind;
use serde_json::{Value as J, json};

struct Cx<'a> {
    mgr: &'a SpanManager,
}

impl Cx<'_> {
    fn node(&self, n: &str, v: &str, c: Vec<J>, span: Option<SpanId>) -> J {
        match span {
            Some(sp) => {
                let (_, s, e) = self.mgr.get_span(sp);
                json!({"n": n, "v": v, "c": c, "s": s, "e": e})
            }
            None => json!({"n": n, "v": v, "c": c, "s": J::Null, "e": J::Null}),
        }
    }

    fn none(&self) -> J {
        self.node("none", "", vec![], None)
    }

    fn ident(&self, id: &ast::Ident<'_>) -> J {
        self.node("id", id.value.value(), vec![], Some(id.span))
    }

    fn opt(&self, e: Option<&ast::Expr<'_, '_>>) -> J {
        match e {
            Some(e) => self.expr(e),
            None => self.none(),
        }
    }

    fn params(&self, ps: &[ast::Param<'_, '_>], span: Option<SpanId>) -> J {
        let c = ps
            .iter()
            .map(|p| {
                self.node(
                    "param",
                    "",
                    vec![self.ident(&p.name), self.opt(p.default_value.as_ref())],
                    None,
                )
            })
            .collect();
        self.node("params", "", c, span)
    }

    fn bind(&self, b: &ast::Bind<'_, '_>) -> J {
        let params = match b.params {
            Some((ps, span)) => self.params(ps, Some(span)),
            None => self.none(),
        };
        self.node(
            "bind",
            "",
            vec![self.ident(&b.name), params, self.expr(&b.value)],
            None,
        )
    }

    fn assertion(&self, a: &ast::Assert<'_, '_>) -> J {
        self.node(
            "assertion",
            "",
            vec![self.expr(&a.cond), self.opt(a.msg.as_ref())],
            Some(a.span),
        )
    }

    fn spec(&self, s: &ast::CompSpecPart<'_, '_>) -> J {
        match s {
            ast::CompSpecPart::For(f) => self.node(
                "for",
                "",
                vec![self.ident(&f.var), self.expr(&f.inner)],
                None,
            ),
            ast::CompSpecPart::If(i) => self.node("cif", "", vec![self.expr(&i.cond)], None),
        }
    }

    fn vis(v: ast::Visibility) -> &'static str {
        match v {
            ast::Visibility::Default => ":",
            ast::Visibility::Hidden => "::",
            ast::Visibility::ForceVisible => ":::",
        }
    }

    fn field_name(&self, n: &ast::FieldName<'_, '_>) -> J {
        match n {
            ast::FieldName::Ident(id) => self.ident(id),
            ast::FieldName::String(s, span) => self.node("fstr", s.value(), vec![], Some(*span)),
            ast::FieldName::Expr(e, span) => self.node("fexpr", "", vec![self.expr(e)], Some(*span)),
        }
    }

    fn obj_local(&self, l: &ast::ObjLocal<'_, '_>) -> J {
        self.node("mlocal", "", vec![self.bind(&l.bind)], None)
    }

    fn member(&self, m: &ast::Member<'_, '_>) -> J {
        match m {
            ast::Member::Local(l) => self.obj_local(l),
            ast::Member::Assert(a) => self.assertion(a),
            ast::Member::Field(ast::Field::Value(name, plus, vis, e)) => {
                let v = format!("{}{}", if *plus { "+" } else { "" }, Self::vis(*vis));
                self.node("fvalue", &v, vec![self.field_name(name), self.expr(e)], None)
            }
            ast::Member::Field(ast::Field::Func(name, ps, pspan, vis, e)) => self.node(
                "ffunc",
                Self::vis(*vis),
                vec![
                    self.field_name(name),
                    self.params(ps, Some(*pspan)),
                    self.expr(e),
                ],
                None,
            ),
        }
    }

    /// An object body; `span` is the span of `{ ... }`.
    fn obj_inside(&self, o: &ast::ObjInside<'_, '_>, span: SpanId) -> J {
        match o {
            ast::ObjInside::Members(ms) => self.node(
                "object",
                "",
                ms.iter().map(|m| self.member(m)).collect(),
                Some(span),
            ),
            ast::ObjInside::Comp {
                locals1,
                name,
                plus,
                body,
                locals2,
                comp_spec,
            } => {
                let mut c = Vec::new();
                c.extend(locals1.iter().map(|l| self.obj_local(l)));
                c.push(self.expr(name));
                c.push(self.expr(body));
                c.extend(locals2.iter().map(|l| self.obj_local(l)));
                c.extend(comp_spec.iter().map(|s| self.spec(s)));
                self.node("objcomp", if *plus { "+" } else { "" }, c, Some(span))
            }
        }
    }

    fn binop(op: ast::BinaryOp) -> &'static str {
        use ast::BinaryOp::*;
        match op {
            Add => "+",
            Sub => "-",
            Mul => "*",
            Div => "/",
            Rem => "%",
            Shl => "<<",
            Shr => ">>",
            Lt => "<",
            Le => "<=",
            Gt => ">",
            Ge => ">=",
            Eq => "==",
            Ne => "!=",
            In => "in",
            BitwiseAnd => "&",
            BitwiseOr => "|",
            BitwiseXor => "^",
            LogicAnd => "&&",
            LogicOr => "||",
        }
    }

    fn unop(op: ast::UnaryOp) -> &'static str {
        match op {
            ast::UnaryOp::Minus => "-",
            ast::UnaryOp::Plus => "+",
            ast::UnaryOp::BitwiseNot => "~",
            ast::UnaryOp::LogicNot => "!",
        }
    }

    fn expr(&self, e: &ast::Expr<'_, '_>) -> J {
        use ast::ExprKind as K;
        let sp = Some(e.span);
        match &e.kind {
            K::Null => self.node("null", "", vec![], sp),
            K::Bool(true) => self.node("true", "", vec![], sp),
            K::Bool(false) => self.node("false", "", vec![], sp),
            K::SelfObj => self.node("self", "", vec![], sp),
            K::Dollar => self.node("dollar", "", vec![], sp),
            K::String(s) => self.node("str", s, vec![], sp),
            K::TextBlock(s) => self.node("textblock", s, vec![], sp),
            K::Number(n) => {
                let v = if n.exp == 0 {
                    n.digits.to_string()
                } else {
                    format!("{}e{}", n.digits, n.exp)
                };
                self.node("num", &v, vec![], sp)
            }
            K::Paren(x) => self.node("paren", "", vec![self.expr(x)], sp),
            K::Object(o) => self.obj_inside(o, e.span),
            K::Array(items) => {
                self.node("array", "", items.iter().map(|x| self.expr(x)).collect(), sp)
            }
            K::ArrayComp(x, specs) => {
                let mut c = vec![self.expr(x)];
                c.extend(specs.iter().map(|s| self.spec(s)));
                self.node("arraycomp", "", c, sp)
            }
            K::Field(x, id) => self.node("field", "", vec![self.expr(x), self.ident(id)], sp),
            K::Index(x, i) => self.node("index", "", vec![self.expr(x), self.expr(i)], sp),
            K::Slice(x, a, b, c) => self.node(
                "slice",
                "",
                vec![
                    self.expr(x),
                    self.opt(a.as_deref()),
                    self.opt(b.as_deref()),
                    self.opt(c.as_deref()),
                ],
                sp,
            ),
            K::SuperField(ssp, id) => self.node(
                "superfield",
                "",
                vec![self.node("super", "", vec![], Some(*ssp)), self.ident(id)],
                sp,
            ),
            K::SuperIndex(ssp, i) => self.node(
                "superindex",
                "",
                vec![self.node("super", "", vec![], Some(*ssp)), self.expr(i)],
                sp,
            ),
            K::Call(f, args, tailstrict) => {
                let mut c = vec![self.expr(f)];
                for a in args.iter() {
                    c.push(match a {
                        ast::Arg::Positional(x) => self.node("pos", "", vec![self.expr(x)], None),
                        ast::Arg::Named(id, x) => {
                            self.node("named", "", vec![self.ident(id), self.expr(x)], None)
                        }
                    });
                }
                self.node("call", if *tailstrict { "tailstrict" } else { "" }, c, sp)
            }
            K::Ident(id) => self.node("var", id.value.value(), vec![], sp),
            K::Local(binds, body) => {
                let mut c: Vec<J> = binds.iter().map(|b| self.bind(b)).collect();
                c.push(self.expr(body));
                self.node("local", "", c, sp)
            }
            K::If(c, t, f) => self.node(
                "if",
                "",
                vec![self.expr(c), self.expr(t), self.opt(f.as_deref())],
                sp,
            ),
            K::Binary(l, op, r) => {
                self.node("binary", Self::binop(*op), vec![self.expr(l), self.expr(r)], sp)
            }
            K::Unary(op, x) => self.node("unary", Self::unop(*op), vec![self.expr(x)], sp),
            K::ObjExt(x, o, ospan) => self.node(
                "objext",
                "",
                vec![self.expr(x), self.obj_inside(o, *ospan)],
                sp,
            ),
            K::Func(ps, body) => {
                self.node("func", "", vec![self.params(ps, None), self.expr(body)], sp)
            }
            K::Assert(a, body) => {
                self.node("assert", "", vec![self.assertion(a), self.expr(body)], sp)
            }
            K::Import(x) => self.node("import", "import", vec![self.expr(x)], sp),
            K::ImportStr(x) => self.node("import", "importstr", vec![self.expr(x)], sp),
            K::ImportBin(x) => self.node("import", "importbin", vec![self.expr(x)], sp),
            K::Error(x) => self.node("error", "", vec![self.expr(x)], sp),
            K::InSuper(x, ssp) => self.node(
                "insuper",
                "",
                vec![self.expr(x), self.node("super", "", vec![], Some(*ssp))],
                sp,
            ),
        }
    }
}

fn canon(n: &J, out: &mut String) {
    let kind = n["n"].as_str().unwrap_or("");
    if kind == "none" {
        out.push('_');
        return;
    }
    out.push_str(kind);
    let v = n["v"].as_str().unwrap_or("");
    if !v.is_empty() {
        out.push(':');
        out.push_str(&serde_json::to_string(v).unwrap());
    }
    if let (Some(s), Some(e)) = (n["s"].as_u64(), n["e"].as_u64()) {
        out.push_str(&format!("@{s}-{e}"));
    }
    if let Some(c) = n["c"].as_array() {
        if !c.is_empty() {
            out.push('(');
            for (i, ch) in c.iter().enumerate() {
                if i > 0 {
                    out.push(',');
                }
                canon(ch, out);
            }
            out.push(')');
        }
    }
}

fn lex_error_span(e: &LexError) -> (SpanId, String) {
    let name = format!("{e:?}");
    let name = name
        .split(|c: char| !(c.is_alphanumeric() || c == '_'))
        .next()
        .unwrap_or("")
        .to_string();
    let span = match e {
        LexError::InvalidChar { span, .. }
        | LexError::InvalidUtf8 { span, .. }
        | LexError::UnfinishedMultilineComment { span }
        | LexError::LeadingZeroInNumber { span }
        | LexError::MissingFracDigits { span }
        | LexError::MissingExpDigits { span }
        | LexError::MissingDigitAfterUnderscore { span }
        | LexError::ExpOverflow { span }
        | LexError::InvalidEscapeInString { span, .. }
        | LexError::IncompleteUnicodeEscape { span }
        | LexError::InvalidUtf16EscapeSequence { span, .. }
        | LexError::UnfinishedString { span }
        | LexError::MissingLineBreakAfterTextBlockStart { span }
        | LexError::MissingWhitespaceTextBlockStart { span }
        | LexError::InvalidTextBlockTermination { span } => *span,
    };
    (span, name)
}

pub fn run(case: &J) -> J {
    let Some(src) = case.get("src").and_then(|s| s.as_str()) else {
        return json!({"tool_error": "parse case without src"});
    };
    let stretched = match crate::lexcase::apply_stretch(case, src.as_bytes().to_vec()) {
        Ok(v) => v,
        Err(e) => return json!({"tool_error": e}),
    };
    let input = &stretched[..];

    let arena = Arena::new();
    let ast_arena = Arena::new();
    let str_interner = StrInterner::new();
    let mut span_mgr = SpanManager::new();
    let (span_ctx, _) = span_mgr.insert_source_context(input.len());

    let lexer = Lexer::new(
        &arena,
        &ast_arena,
        &str_interner,
        &mut span_mgr,
        span_ctx,
        input,
    );
    let tokens = match lexer.lex_to_eof(false) {
        Ok(t) => t,
        Err(e) => {
            // token spans up to the error, from a second lexer run token by token
            let mut mgr2 = SpanManager::new();
            let (ctx2, _) = mgr2.insert_source_context(input.len());
            let arena2 = Arena::new();
            let ast_arena2 = Arena::new();
            let int2 = StrInterner::new();
            let mut spans = Vec::new();
            {
                let mut lx = Lexer::new(&arena2, &ast_arena2, &int2, &mut mgr2, ctx2, input);
                while let Ok(t) = lx.next_token() {
                    if t.kind == TokenKind::EndOfFile {
                        break;
                    }
                    if !matches!(t.kind, TokenKind::Whitespace | TokenKind::Comment) {
                        spans.push(t.span);
                    }
                }
            }
            let toks: Vec<J> = spans
                .iter()
                .map(|s| {
                    let (_, a, b) = mgr2.get_span(*s);
                    json!([a, b])
                })
                .collect();
            let (span, kind) = lex_error_span(&e);
            let (_, s, en) = span_mgr.get_span(span);
            return json!({"tokens": toks, "eof": J::Null,
                          "err": {"stage": "lex", "start": s, "end": en, "kind": kind,
                                  "instead": J::Null, "expected": []}});
        }
    };

    let mut tok_spans: Vec<SpanId> = tokens.iter().map(|t| t.span).collect();
    let eof_span = tok_spans.pop();
    let eof_is_last = matches!(tokens.last().map(|t| &t.kind), Some(TokenKind::EndOfFile));
    if !eof_is_last {
        return json!({"tool_error": "token list does not end with the end-of-file token"});
    }

    let parser = Parser::new(&arena, &ast_arena, &str_interner, &mut span_mgr, tokens);
    let result = parser.parse_root_expr();

    let res_span = |mgr: &SpanManager, s: SpanId| {
        let (_, a, b) = mgr.get_span(s);
        json!([a, b])
    };
    let toks: Vec<J> = tok_spans.iter().map(|s| res_span(&span_mgr, *s)).collect();
    let eof = eof_span.map(|s| res_span(&span_mgr, s)).unwrap_or(J::Null);

    match result {
        Ok(root) => {
            let cx = Cx { mgr: &span_mgr };
            let ast = cx.expr(&root);
            if case.get("full").and_then(|f| f.as_bool()).unwrap_or(false) {
                json!({"tokens": toks, "eof": eof, "ast": ast})
            } else {
                let mut text = String::new();
                canon(&ast, &mut text);
                json!({"tokens": toks, "eof": eof, "tree": text})
            }
        }
        Err(ParseError::Expected {
            span,
            expected,
            instead,
        }) => {
            let (_, s, e) = span_mgr.get_span(span);
            let exp: Vec<String> = expected.iter().map(|x| format!("{x:?}")).collect();
            json!({"tokens": toks, "eof": eof,
                   "err": {"stage": "parse", "start": s, "end": e, "kind": "Expected",
                           "instead": format!("{instead:?}"), "expected": exp}})
        }
    }
}
