//! Replays an operation script on the public `SpanManager` and reports,
//! after every operation, the decoding of EVERY span id issued so far.
//!
//! case: `{"k":"spans","ops":[["ctx", len] | ["span", ctx, start, end] ...]}`
//! (`ctx` is the 1-based number of a context registered earlier in the script;
//! magnitudes are u64).
//!
//! result: `{"obs":[{"err": null | <panic message of the operation>,
//!                   "dec": [[ctx, start, end] | {"panic": msg} | {"unknown_ctx": true}, ...],
//!                   "enc": ["Inline" | "Interned", ...]}, ...]}`
//! A panic is caught per operation and per `get_span` so that the script goes on.

use std::panic::{AssertUnwindSafe, catch_unwind};

use rsjsonnet_lang::span::{SpanContextId, SpanId, SpanManager};
use serde_json::{Value as J, json};

fn take_panic() -> String {
    crate::LAST_PANIC
        .with(|p| p.borrow_mut().take())
        .unwrap_or_else(|| "<unknown panic>".into())
}

fn num(v: Option<&J>) -> u64 {
    v.and_then(|x| x.as_u64()).expect("u64 operand")
}

pub fn run(case: &J) -> J {
    let ops = case["ops"].as_array().expect("ops");
    let mut mgr = SpanManager::new();
    let mut ctxs: Vec<SpanContextId> = Vec::new();
    let mut issued: Vec<SpanId> = Vec::new();
    let mut obs = Vec::new();
    for op in ops {
        let name = op[0].as_str().expect("op name");
        let err: Option<String> = match name {
            "ctx" => {
                let len = usize::try_from(num(op.get(1))).expect("usize");
                match catch_unwind(AssertUnwindSafe(|| mgr.insert_source_context(len))) {
                    Ok((ctx, _src)) => {
                        ctxs.push(ctx);
                        None
                    }
                    Err(_) => Some(take_panic()),
                }
            }
            "span" => {
                let c = num(op.get(1)) as usize;
                let s = usize::try_from(num(op.get(2))).expect("usize");
                let e = usize::try_from(num(op.get(3))).expect("usize");
                if c < 1 || c > ctxs.len() {
                    return json!({"tool_error": format!("script names unknown context {c}")});
                }
                let ctx = ctxs[c - 1];
                match catch_unwind(AssertUnwindSafe(|| mgr.intern_span(ctx, s, e))) {
                    Ok(id) => {
                        issued.push(id);
                        None
                    }
                    Err(_) => Some(take_panic()),
                }
            }
            other => return json!({"tool_error": format!("unknown span op {other}")}),
        };
        let mut dec = Vec::with_capacity(issued.len());
        let mut enc = Vec::with_capacity(issued.len());
        for &id in issued.iter() {
            match catch_unwind(AssertUnwindSafe(|| mgr.get_span(id))) {
                Ok((ctx, s, e)) => match ctxs.iter().position(|&x| x == ctx) {
                    Some(p) => dec.push(json!([p + 1, s as u64, e as u64])),
                    None => dec.push(json!({"unknown_ctx": true, "s": s as u64, "e": e as u64})),
                },
                Err(_) => dec.push(json!({"panic": take_panic()})),
            }
            let dbg = catch_unwind(AssertUnwindSafe(|| format!("{id:?}"))).unwrap_or_else(|_| {
                let _ = take_panic();
                "?".into()
            });
            enc.push(if dbg.starts_with("Inline") {
                "Inline"
            } else if dbg.starts_with("Interned") {
                "Interned"
            } else {
                "?"
            });
        }
        obs.push(json!({"err": err, "dec": dec, "enc": enc}));
    }
    json!({"obs": obs})
}
