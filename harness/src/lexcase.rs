//! Case kind `"lex"` (property C14): runs `Lexer::lex_to_eof(true)` and
//! `Lexer::lex_to_eof(false)` over a byte string and reports, for each of the
//! two runs, either the token list or the located error.
//!
//! input : `{"k":"lex","bytes":[b0,b1,...]}` or `{"k":"lex","hex":"6162.."}`;
//!         optional `"stretch": {"at","byte","count"}` inserts a run of one byte (see `apply_stretch`);
//!         optional `"values": false` omits token values (kinds and spans only);
//!         optional `"compact": true` writes every token as the array
//!         `[kind, start, end]` or `[kind, start, end, value]` instead of an object.
//! output: `{"len":N, "all": R, "nows": R}` where `R` is either
//!         `{"tokens":[{"kind":K,"value":V,"start":S,"end":E}, ...]}` or
//!         `{"error":{"kind":K,"start":S,"end":E}}`.
//!
//! `kind` is the variant name of `TokenKind` (`EndOfFile`, `Whitespace`,
//! `Comment`, `OtherOp`, `Ident`, `Number`, `String`, `TextBlock`) or, for
//! `TokenKind::Simple`, the variant name of `STokenKind`. `value` is
//!   * `Ident`, `OtherOp`: the text,
//!   * `String`, `TextBlock`: the sequence of code points,
//!   * `Number`: `{"digits": "...", "exp": i64}`,
//!   * otherwise absent.
//! Spans are resolved with `SpanManager::get_span`; the span context of every
//! token is checked to be the context the lexer was created with (a foreign
//! context is reported as `"ctx": false` on the token).

use rsjsonnet_lang::arena::Arena;
use rsjsonnet_lang::interner::StrInterner;
use rsjsonnet_lang::lexer::{LexError, Lexer};
use rsjsonnet_lang::span::{SpanId, SpanManager};
use rsjsonnet_lang::token::TokenKind;
use serde_json::{Value as J, json};

fn error_parts(e: &LexError) -> (&'static str, SpanId) {
    match *e {
        LexError::InvalidChar { span, .. } => ("InvalidChar", span),
        LexError::InvalidUtf8 { span, .. } => ("InvalidUtf8", span),
        LexError::UnfinishedMultilineComment { span } => ("UnfinishedMultilineComment", span),
        LexError::LeadingZeroInNumber { span } => ("LeadingZeroInNumber", span),
        LexError::MissingFracDigits { span } => ("MissingFracDigits", span),
        LexError::MissingExpDigits { span } => ("MissingExpDigits", span),
        LexError::MissingDigitAfterUnderscore { span } => ("MissingDigitAfterUnderscore", span),
        LexError::ExpOverflow { span } => ("ExpOverflow", span),
        LexError::InvalidEscapeInString { span, .. } => ("InvalidEscapeInString", span),
        LexError::IncompleteUnicodeEscape { span } => ("IncompleteUnicodeEscape", span),
        LexError::InvalidUtf16EscapeSequence { span, .. } => ("InvalidUtf16EscapeSequence", span),
        LexError::UnfinishedString { span } => ("UnfinishedString", span),
        LexError::MissingLineBreakAfterTextBlockStart { span } => {
            ("MissingLineBreakAfterTextBlockStart", span)
        }
        LexError::MissingWhitespaceTextBlockStart { span } => {
            ("MissingWhitespaceTextBlockStart", span)
        }
        LexError::InvalidTextBlockTermination { span } => ("InvalidTextBlockTermination", span),
    }
}

fn code_points(s: &str) -> J {
    J::Array(s.chars().map(|c| json!(u32::from(c))).collect())
}

fn lex_once(input: &[u8], with_ws: bool, values: bool, compact: bool) -> J {
    let arena = Arena::new();
    let ast_arena = Arena::new();
    let interner = StrInterner::new();
    let mut span_mgr = SpanManager::new();
    let (span_ctx, _) = span_mgr.insert_source_context(input.len());
    let lexer = Lexer::new(&arena, &ast_arena, &interner, &mut span_mgr, span_ctx, input);
    match lexer.lex_to_eof(with_ws) {
        Ok(tokens) => {
            let mut out = Vec::with_capacity(tokens.len());
            for tok in tokens.iter() {
                let (ctx, start, end) = span_mgr.get_span(tok.span);
                let (kind, value): (String, Option<J>) = match tok.kind {
                    TokenKind::EndOfFile => ("EndOfFile".into(), None),
                    TokenKind::Whitespace => ("Whitespace".into(), None),
                    TokenKind::Comment => ("Comment".into(), None),
                    TokenKind::Simple(s) => (format!("{s:?}"), None),
                    TokenKind::OtherOp(s) => ("OtherOp".into(), Some(json!(s))),
                    TokenKind::Ident(ref s) => ("Ident".into(), Some(json!(s.value()))),
                    TokenKind::Number(n) => (
                        "Number".into(),
                        Some(json!({"digits": n.digits, "exp": n.exp})),
                    ),
                    TokenKind::String(s) => ("String".into(), values.then(|| code_points(s))),
                    TokenKind::TextBlock(s) => ("TextBlock".into(), values.then(|| code_points(s))),
                };
                let value = if values { value } else { None };
                if ctx != span_ctx {
                    // never expected: reported in the long form so that the check sees it
                    out.push(json!({"kind": kind, "start": start, "end": end, "ctx": false}));
                } else if compact {
                    out.push(match value {
                        Some(v) => json!([kind, start, end, v]),
                        None => json!([kind, start, end]),
                    });
                } else {
                    let mut t = json!({"kind": kind, "start": start, "end": end});
                    if let Some(v) = value {
                        t["value"] = v;
                    }
                    out.push(t);
                }
            }
            json!({"tokens": out})
        }
        Err(e) => {
            let (kind, span) = error_parts(&e);
            let (ctx, start, end) = span_mgr.get_span(span);
            let mut err = json!({"kind": kind, "start": start, "end": end});
            if ctx != span_ctx {
                err["ctx"] = json!(false);
            }
            json!({"error": err})
        }
    }
}

fn input_bytes(case: &J) -> Result<Vec<u8>, String> {
    if let Some(arr) = case.get("bytes").and_then(|b| b.as_array()) {
        let mut v = Vec::with_capacity(arr.len());
        for x in arr {
            match x.as_u64() {
                Some(b) if b < 256 => v.push(b as u8),
                _ => return Err(format!("bad byte {x}")),
            }
        }
        return Ok(v);
    }
    if let Some(h) = case.get("hex").and_then(|h| h.as_str()) {
        let hb = h.as_bytes();
        if hb.len() % 2 != 0 {
            return Err("odd hex length".into());
        }
        let nib = |c: u8| -> Result<u8, String> {
            match c {
                b'0'..=b'9' => Ok(c - b'0'),
                b'a'..=b'f' => Ok(c - b'a' + 10),
                b'A'..=b'F' => Ok(c - b'A' + 10),
                _ => Err(format!("bad hex digit {c}")),
            }
        };
        let mut v = Vec::with_capacity(hb.len() / 2);
        for p in hb.chunks(2) {
            v.push((nib(p[0])? << 4) | nib(p[1])?);
        }
        return Ok(v);
    }
    Err("lex case needs `bytes` or `hex`".into())
}

/// `"stretch": {"at": offset, "byte": b, "count": k}`: k copies of byte b are inserted at the
/// (0-based) offset of the decoded input before it is used (long inputs without long case lines).
pub fn apply_stretch(case: &J, input: Vec<u8>) -> Result<Vec<u8>, String> {
    let Some(st) = case.get("stretch") else {
        return Ok(input);
    };
    let at = st.get("at").and_then(|v| v.as_u64()).ok_or("stretch.at")? as usize;
    let byte = st.get("byte").and_then(|v| v.as_u64()).ok_or("stretch.byte")?;
    let count = st.get("count").and_then(|v| v.as_u64()).ok_or("stretch.count")? as usize;
    if at > input.len() || byte > 255 {
        return Err("stretch out of range".into());
    }
    let mut v = Vec::with_capacity(input.len() + count);
    v.extend_from_slice(&input[..at]);
    v.resize(at + count, byte as u8);
    v.extend_from_slice(&input[at..]);
    Ok(v)
}

pub fn run(case: &J) -> J {
    let input = match input_bytes(case).and_then(|v| apply_stretch(case, v)) {
        Ok(v) => v,
        Err(e) => return json!({"tool_error": e}),
    };
    let values = case.get("values").and_then(|v| v.as_bool()).unwrap_or(true);
    let compact = case.get("compact").and_then(|v| v.as_bool()).unwrap_or(false);
    let all = lex_once(&input, true, values, compact);
    let nows = lex_once(&input, false, values, compact);
    json!({"len": input.len(), "all": all, "nows": nows})
}
