//! Runs a history of file requests on ONE long-lived `rsjsonnet_front::Session`.
//!
//! case: {"k":"sess", "jpaths": [dir, ...], "reqs": [ {"op":"file","path":P} | {"op":"gc"} ]}
//! Every request loads the file through the session (imports are resolved by the session's own
//! callbacks and caches), evaluates and manifests it. The outcome is the JSON text or "error"
//! (the session prints the diagnostic itself).

use rsjsonnet_front::Session;
use rsjsonnet_lang::arena::Arena;
use serde_json::{Value as J, json};

pub fn run(case: &J) -> J {
    let arena = Arena::new();
    let mut session = Session::new(&arena);
    if let Some(js) = case.get("jpaths").and_then(|j| j.as_array()) {
        for j in js {
            session.add_search_path(j.as_str().unwrap().into());
        }
    }
    let mut outs = Vec::new();
    for req in case["reqs"].as_array().unwrap() {
        match req["op"].as_str().unwrap() {
            "gc" => {
                session.program_mut().gc();
                outs.push(json!("gc"));
            }
            "file" => {
                let path = std::path::PathBuf::from(req["path"].as_str().unwrap());
                let out = (|| {
                    let thunk = session.load_real_file(&path)?;
                    let value = session.eval_value(&thunk)?;
                    session.manifest_json(&value, false)
                })();
                outs.push(match out {
                    Some(s) => json!({"ok": s}),
                    None => json!("error"),
                });
            }
            other => panic!("unknown session op {other}"),
        }
    }
    json!({"outs": outs})
}
