//! Runs one Jsonnet program through the library API (load, evaluate,
//! manifest) and reports the outcome in a structured form.

use std::collections::HashMap;

use rsjsonnet_lang::arena::Arena;
use rsjsonnet_lang::interner::InternedStr;
use rsjsonnet_lang::program::{
    AnalyzeError, Callbacks, EvalError, EvalErrorKind, EvalStackTraceItem, ImportError, LoadError,
    NativeError, Program, Thunk, Value,
};
use rsjsonnet_lang::span::{SourceId, SpanContext, SpanId, SpanManager};
use rsjsonnet_lang::verif::{self, Event, GcSchedule};
use serde_json::{Value as J, json};

pub struct Sources {
    /// SourceId -> (index, length); index 0 is the stdlib.
    pub by_id: HashMap<SourceId, (usize, usize)>,
}

impl Sources {
    pub fn new(program: &Program<'_>) -> Self {
        let (sid, data) = program.get_stdlib_source();
        let mut by_id = HashMap::new();
        by_id.insert(sid, (0usize, data.len()));
        Self { by_id }
    }

    pub fn add(&mut self, sid: SourceId, len: usize) -> usize {
        let idx = self.by_id.len();
        self.by_id.insert(sid, (idx, len));
        idx
    }

    /// `[source index, source length, start, end]`
    pub fn resolve(&self, mgr: &SpanManager, span: SpanId) -> J {
        let (ctx, s, e) = mgr.get_span(span);
        let SpanContext::Source(sid) = mgr.get_context(ctx);
        match self.by_id.get(sid) {
            Some(&(idx, len)) => json!([idx, len, s, e]),
            None => json!([-1, -1, s, e]),
        }
    }
}

pub struct Cb<'p> {
    pub traces: Vec<String>,
    pub files: HashMap<String, Vec<u8>>,
    pub cache: HashMap<String, Thunk<'p>>,
    pub loads: Vec<String>,
    pub sources: Sources,
}

impl<'p> Callbacks<'p> for Cb<'p> {
    fn import(
        &mut self,
        program: &mut Program<'p>,
        _from: SpanId,
        path: &str,
    ) -> Result<Thunk<'p>, ImportError> {
        if let Some(t) = self.cache.get(path) {
            return Ok(t.clone());
        }
        let Some(data) = self.files.get(path).cloned() else {
            return Err(ImportError);
        };
        let (ctx, sid) = program.span_manager_mut().insert_source_context(data.len());
        self.sources.add(sid, data.len());
        self.loads.push(path.to_string());
        match program.load_source(ctx, &data, true, path) {
            Ok(t) => {
                self.cache.insert(path.to_string(), t.clone());
                Ok(t)
            }
            Err(_) => Err(ImportError),
        }
    }

    fn import_str(
        &mut self,
        _program: &mut Program<'p>,
        _from: SpanId,
        path: &str,
    ) -> Result<String, ImportError> {
        match self.files.get(path) {
            Some(d) => Ok(String::from_utf8_lossy(d).into_owned()),
            None => Err(ImportError),
        }
    }

    fn import_bin(
        &mut self,
        _program: &mut Program<'p>,
        _from: SpanId,
        path: &str,
    ) -> Result<Vec<u8>, ImportError> {
        match self.files.get(path) {
            Some(d) => Ok(d.clone()),
            None => Err(ImportError),
        }
    }

    fn trace(&mut self, _program: &mut Program<'p>, message: &str, _stack: &[EvalStackTraceItem]) {
        self.traces.push(message.to_string());
    }

    fn native_call(
        &mut self,
        _program: &mut Program<'p>,
        _name: InternedStr<'p>,
        _args: &[Value<'p>],
    ) -> Result<Value<'p>, NativeError> {
        Err(NativeError)
    }
}

fn variant_name<T: std::fmt::Debug>(v: &T) -> String {
    let s = format!("{v:?}");
    s.split(|c: char| !(c.is_alphanumeric() || c == '_'))
        .next()
        .unwrap_or("")
        .to_string()
}

pub fn kind_spans(kind: &EvalErrorKind) -> Vec<SpanId> {
    use EvalErrorKind as K;
    match kind {
        K::StackOverflow
        | K::InfiniteRecursion
        | K::NativeCallFailed
        | K::InvalidStdFuncArgType { .. }
        | K::AssertEqualFailed { .. }
        | K::UnknownExtVar { .. }
        | K::ManifestFunction
        | K::CompareNullInequality
        | K::CompareBooleanInequality
        | K::CompareObjectInequality
        | K::CompareFunctions
        | K::CompareDifferentTypesInequality { .. }
        | K::PrimitiveEqualsNonPrimitive { .. } => vec![],
        K::InvalidIndexedType { span, .. }
        | K::InvalidSlicedType { span, .. }
        | K::SliceIndexOrStepIsNotNumber { span, .. }
        | K::StringIndexIsNotNumber { span, .. }
        | K::ArrayIndexIsNotNumber { span, .. }
        | K::NumericIndexIsNotValid { span, .. }
        | K::NumericIndexOutOfRange { span, .. }
        | K::ObjectIndexIsNotString { span, .. }
        | K::RepeatedFieldName { span, .. }
        | K::FieldNameIsNotString { span, .. }
        | K::UnknownObjectField { span, .. }
        | K::FieldOfNonObject { span }
        | K::SuperWithoutSuperObject { span }
        | K::ForSpecValueIsNotArray { span, .. }
        | K::CondIsNotBool { span, .. }
        | K::InvalidUnaryOpType { span, .. }
        | K::AssertFailed { span, .. }
        | K::ExplicitError { span, .. }
        | K::ImportFailed { span, .. } => vec![*span],
        K::CalleeIsNotFunction { span, .. }
        | K::TooManyCallArgs { span, .. }
        | K::UnknownCallParam { span, .. }
        | K::RepeatedCallParam { span, .. }
        | K::CallParamNotBound { span, .. }
        | K::InvalidBinaryOpTypes { span, .. }
        | K::NumberNotBitwiseSafe { span }
        | K::NumberOverflow { span }
        | K::NumberNan { span }
        | K::DivByZero { span }
        | K::ShiftByNegative { span }
        | K::Other { span, .. } => span.iter().copied().collect(),
    }
}

fn kind_message(kind: &EvalErrorKind) -> Option<String> {
    match kind {
        EvalErrorKind::ExplicitError { message, .. } => Some(message.clone()),
        EvalErrorKind::AssertFailed { message, .. } => message.clone(),
        EvalErrorKind::Other { message, .. } => Some(message.clone()),
        EvalErrorKind::UnknownObjectField { field_name, .. } => Some(field_name.clone()),
        EvalErrorKind::AssertEqualFailed { lhs, rhs } => Some(format!("{lhs} != {rhs}")),
        _ => None,
    }
}

fn trace_item_desc(item: &EvalStackTraceItem, mgr: &SpanManager, sources: &Sources) -> J {
    let (name, span): (&str, Option<SpanId>) = match item {
        EvalStackTraceItem::Expr { span } => ("expr", Some(*span)),
        EvalStackTraceItem::Call { span, .. } => ("call", *span),
        EvalStackTraceItem::Variable { span, .. } => ("var", Some(*span)),
        EvalStackTraceItem::ArrayItem { span, .. } => ("item", *span),
        EvalStackTraceItem::ObjectField { span, .. } => ("field", *span),
        EvalStackTraceItem::CompareArrayItem { .. } => ("cmpitem", None),
        EvalStackTraceItem::CompareObjectField { .. } => ("cmpfield", None),
        EvalStackTraceItem::ManifestArrayItem { .. } => ("mitem", None),
        EvalStackTraceItem::ManifestObjectField { .. } => ("mfield", None),
        EvalStackTraceItem::Import { span } => ("import", Some(*span)),
    };
    json!([name, span.map(|s| sources.resolve(mgr, s))])
}

pub fn eval_error_desc(e: &EvalError, mgr: &SpanManager, sources: &Sources) -> J {
    let spans: Vec<J> = kind_spans(&e.kind)
        .into_iter()
        .map(|s| sources.resolve(mgr, s))
        .collect();
    let trace: Vec<J> = e
        .stack_trace
        .iter()
        .map(|it| trace_item_desc(it, mgr, sources))
        .collect();
    // a digest of the full error (kind with all payload + stack trace) for
    // schedule-independence comparisons
    let full = format!("{:?}|{:?}", e.kind, e.stack_trace);
    json!({
        "stage": "eval",
        "kind": variant_name(&e.kind),
        "msg": kind_message(&e.kind),
        "spans": spans,
        "trace": trace,
        "full": full,
    })
}

pub fn load_error_desc(e: &LoadError, mgr: &SpanManager, sources: &Sources) -> J {
    match e {
        LoadError::Lex(le) => {
            use rsjsonnet_lang::lexer::LexError as L;
            let span = match le {
                L::InvalidChar { span, .. }
                | L::InvalidUtf8 { span, .. }
                | L::UnfinishedMultilineComment { span }
                | L::LeadingZeroInNumber { span }
                | L::MissingFracDigits { span }
                | L::MissingExpDigits { span }
                | L::MissingDigitAfterUnderscore { span }
                | L::ExpOverflow { span }
                | L::InvalidEscapeInString { span, .. }
                | L::IncompleteUnicodeEscape { span }
                | L::InvalidUtf16EscapeSequence { span, .. }
                | L::UnfinishedString { span }
                | L::MissingLineBreakAfterTextBlockStart { span }
                | L::MissingWhitespaceTextBlockStart { span }
                | L::InvalidTextBlockTermination { span } => *span,
            };
            json!({"stage": "lex", "kind": variant_name(le), "spans": [sources.resolve(mgr, span)]})
        }
        LoadError::Parse(pe) => {
            let rsjsonnet_lang::parser::ParseError::Expected { span, instead, .. } = pe;
            json!({"stage": "parse", "kind": "Expected", "instead": format!("{instead:?}"),
                   "spans": [sources.resolve(mgr, *span)]})
        }
        LoadError::Analyze(ae) => {
            use AnalyzeError as A;
            let (spans, name): (Vec<SpanId>, Option<String>) = match ae {
                A::UnknownVariable { span, name } => (vec![*span], Some(name.clone())),
                A::SelfOutsideObject { self_span } => (vec![*self_span], None),
                A::SuperOutsideObject { super_span } => (vec![*super_span], None),
                A::DollarOutsideObject { dollar_span } => (vec![*dollar_span], None),
                A::RepeatedLocalName {
                    original_span,
                    repeated_span,
                    name,
                }
                | A::RepeatedFieldName {
                    original_span,
                    repeated_span,
                    name,
                }
                | A::RepeatedParamName {
                    original_span,
                    repeated_span,
                    name,
                } => (vec![*original_span, *repeated_span], Some(name.clone())),
                A::PositionalArgAfterNamed { arg_span } => (vec![*arg_span], None),
                A::TextBlockAsImportPath { span } | A::ComputedImportPath { span } => {
                    (vec![*span], None)
                }
            };
            let spans: Vec<J> = spans.into_iter().map(|s| sources.resolve(mgr, s)).collect();
            json!({"stage": "analyze", "kind": variant_name(ae), "name": name, "spans": spans})
        }
    }
}

pub fn parse_schedule(j: Option<&J>) -> GcSchedule {
    let Some(j) = j else {
        return GcSchedule::Default;
    };
    match j["mode"].as_str().unwrap_or("default") {
        "default" => GcSchedule::Default,
        "never" => GcSchedule::Never,
        "period" => GcSchedule::Period {
            period: j["period"].as_u64().unwrap_or(1),
            phase: j["phase"].as_u64().unwrap_or(0),
        },
        "at" => {
            let mut v: Vec<u64> = j["steps"]
                .as_array()
                .map(|a| a.iter().filter_map(|x| x.as_u64()).collect())
                .unwrap_or_default();
            v.sort_unstable();
            v.dedup();
            GcSchedule::At(v)
        }
        other => panic!("unknown gc mode {other}"),
    }
}

pub fn events_to_json(events: &[Event]) -> J {
    let v: Vec<J> = events
        .iter()
        .map(|e| match e {
            Event::EvalBegin { kind, limit } => json!(["begin", kind, limit]),
            Event::EvalEnd { ok, frames } => json!(["end", ok, frames]),
            Event::ThunkSwitch { id, from, to } => json!(["sw", id, from, to]),
            Event::ThunkDone { id, was } => json!(["dn", id, was]),
            Event::ThunkRestore { id } => json!(["restore", id]),
            Event::FramePush { frames } => json!(["fpush", frames]),
            Event::FrameDelay { frames } => json!(["fdelay", frames]),
            Event::FramePop { frames } => json!(["fpop", frames]),
            Event::FrameResume { frames } => json!(["fresume", frames]),
            Event::Step { frames, limit } => json!(["step", frames, limit]),
            Event::Overflow { frames, limit } => json!(["overflow", frames, limit]),
            Event::InfRec { id } => json!(["infrec", id]),
            Event::NonFinite { class } => json!(["nonfinite", class]),
            Event::Gc { before, after } => json!(["gc", before, after]),
        })
        .collect();
    J::Array(v)
}

pub fn src_bytes(case: &J) -> Vec<u8> {
    if let Some(s) = case.get("src").and_then(|s| s.as_str()) {
        s.as_bytes().to_vec()
    } else if let Some(a) = case.get("src_bytes").and_then(|a| a.as_array()) {
        a.iter().map(|b| b.as_u64().unwrap() as u8).collect()
    } else {
        panic!("case without src");
    }
}

pub fn run(case: &J) -> J {
    let arena = Arena::new();
    let mut program = Program::new(&arena);
    if let Some(ms) = case.get("max_stack").and_then(|m| m.as_u64()) {
        program.set_max_stack(ms as usize);
    }
    let mut cb = Cb {
        traces: Vec::new(),
        files: HashMap::new(),
        cache: HashMap::new(),
        loads: Vec::new(),
        sources: Sources::new(&program),
    };
    if let Some(files) = case.get("files").and_then(|f| f.as_object()) {
        for (k, v) in files {
            cb.files
                .insert(k.clone(), v.as_str().unwrap().as_bytes().to_vec());
        }
    }

    // external variables
    if let Some(m) = case.get("ext_str").and_then(|m| m.as_object()) {
        for (k, v) in m {
            let name = program.intern_str(k);
            let th = program.value_to_thunk(&Value::string(v.as_str().unwrap()));
            program.add_ext_var(name, &th);
        }
    }
    if let Some(m) = case.get("ext_code").and_then(|m| m.as_object()) {
        for (k, v) in m {
            let code = v.as_str().unwrap().as_bytes().to_vec();
            let (ctx, sid) = program.span_manager_mut().insert_source_context(code.len());
            cb.sources.add(sid, code.len());
            match program.load_source(ctx, &code, true, &format!("<extvar:{k}>")) {
                Ok(th) => {
                    let name = program.intern_str(k);
                    program.add_ext_var(name, &th);
                }
                Err(e) => {
                    return json!({"err": load_error_desc(&e, program.span_manager(), &cb.sources), "in": "ext"});
                }
            }
        }
    }

    let want_counts = case.get("counts").and_then(|c| c.as_bool()).unwrap_or(false);
    let mut counts: Vec<usize> = Vec::new();
    if want_counts {
        program.gc();
        counts.push(program.verif_num_objects());
    }

    let src = src_bytes(case);
    let (ctx, sid) = program.span_manager_mut().insert_source_context(src.len());
    cb.sources.add(sid, src.len());
    let this_file = case
        .get("this_file")
        .and_then(|s| s.as_str())
        .unwrap_or("<case>");
    let thunk = match program.load_source(ctx, &src, true, this_file) {
        Ok(t) => t,
        Err(e) => {
            return json!({"err": load_error_desc(&e, program.span_manager(), &cb.sources)});
        }
    };

    // top-level arguments
    let mut tla: Vec<(InternedStr<'_>, Thunk<'_>)> = Vec::new();
    if let Some(m) = case.get("tla_str").and_then(|m| m.as_object()) {
        for (k, v) in m {
            let name = program.intern_str(k);
            let th = program.value_to_thunk(&Value::string(v.as_str().unwrap()));
            tla.push((name, th));
        }
    }
    if let Some(m) = case.get("tla_code").and_then(|m| m.as_object()) {
        for (k, v) in m {
            let code = v.as_str().unwrap().as_bytes().to_vec();
            let (ctx, sid) = program.span_manager_mut().insert_source_context(code.len());
            cb.sources.add(sid, code.len());
            match program.load_source(ctx, &code, true, &format!("<tla:{k}>")) {
                Ok(th) => {
                    let name = program.intern_str(k);
                    tla.push((name, th));
                }
                Err(e) => {
                    return json!({"err": load_error_desc(&e, program.span_manager(), &cb.sources), "in": "tla"});
                }
            }
        }
    }

    let want_events = case.get("events").and_then(|c| c.as_bool()).unwrap_or(false);
    let max_events = case
        .get("max_events")
        .and_then(|c| c.as_u64())
        .unwrap_or(200_000) as usize;
    let schedule = parse_schedule(case.get("gc"));
    let manifest = case
        .get("manifest")
        .and_then(|m| m.as_str())
        .unwrap_or("multi")
        .to_string();

    verif::set_gc_schedule(schedule);
    let gc0 = verif::gc_count();
    if want_events {
        verif::install_sink(max_events);
    }

    let outcome: Result<J, EvalError> = (|| {
        let mut value = program.eval_value(&thunk, &mut cb)?;
        if value.is_function() && case.get("call_tla").and_then(|c| c.as_bool()).unwrap_or(true) {
            let func = program.value_to_thunk(&value);
            value = program.eval_call(&func, &[], &tla, &mut cb)?;
        }
        if case.get("hold_gc").and_then(|h| h.as_bool()).unwrap_or(false) {
            // a collection while the caller holds nothing but the request's value
            program.gc();
        }
        match manifest.as_str() {
            "multi" => Ok(J::String(program.manifest_json(&value, true)?)),
            "single" => Ok(J::String(program.manifest_json(&value, false)?)),
            "string" => match value.to_string() {
                Some(s) => Ok(J::String(s)),
                None => Ok(json!({"not_string": true})),
            },
            "none" => Ok(J::Null),
            other => panic!("unknown manifest mode {other}"),
        }
    })();

    let steps = verif::step_count();
    let gcs = verif::gc_count() - gc0;
    verif::set_gc_schedule(GcSchedule::Default);
    let events = if want_events {
        Some(verif::take_events())
    } else {
        None
    };

    let mut res = match outcome {
        Ok(out) => json!({"ok": out}),
        Err(e) => json!({"err": eval_error_desc(&e, program.span_manager(), &cb.sources)}),
    };
    res["traces"] = json!(cb.traces);
    res["steps"] = json!(steps);
    res["gcs"] = json!(gcs);
    if !cb.loads.is_empty() {
        res["loads"] = json!(cb.loads);
    }
    if let Some(ev) = events {
        res["truncated"] = json!(ev.len() >= max_events);
        res["events"] = events_to_json(&ev);
    }
    if want_counts {
        // a collection while the request's thunk is still held, then drop everything that was
        // handed out and collect: the object count must be back at the baseline after ONE
        // collection, and a second one must find nothing more
        program.gc();
        drop(thunk);
        drop(tla);
        cb.cache.clear();
        program.gc();
        counts.push(program.verif_num_objects());
        program.gc();
        counts.push(program.verif_num_objects());
        res["counts"] = json!(counts);
    }
    res
}
