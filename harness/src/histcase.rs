use serde_json::{Value as J, json};

pub fn run(_case: &J) -> J {
    json!({"tool_error": "not implemented"})
}
