//! Runs a history of requests on ONE long-lived `Program` and reports the
//! outcome of every request.
//!
//! case: {"k":"hist", "ext_code": {name: code}, "files": {path: text},
//!        "sources": [text, ...],
//!        "reqs": [ {"op":"eval","src":i,"manifest":"multi"|"none"}     load source i afresh, evaluate (+ manifest)
//!                | {"op":"again","src":i,"manifest":...}               evaluate the thunk of the latest load of i again
//!                | {"op":"call","src":i,"args":{name: code}}           evaluate, then call with named args
//!                | {"op":"gc"} | {"op":"max_stack","s":N} ] }
//!        eval / again / call requests may carry "hold_gc": true: Program::gc() runs between the
//!        evaluation and the manifestation, while only the returned Value is held

use std::collections::HashMap;

use rsjsonnet_lang::arena::Arena;
use rsjsonnet_lang::program::{EvalError, Program, Thunk};
use serde_json::{Value as J, json};

use crate::evalcase::{Cb, Sources, eval_error_desc, load_error_desc};

pub fn run(case: &J) -> J {
    let arena = Arena::new();
    let mut program = Program::new(&arena);
    let mut cb = Cb {
        traces: Vec::new(),
        files: HashMap::new(),
        cache: HashMap::new(),
        loads: Vec::new(),
        sources: Sources::new(&program),
    };
    if let Some(files) = case.get("files").and_then(|f| f.as_object()) {
        for (k, v) in files {
            cb.files
                .insert(k.clone(), v.as_str().unwrap().as_bytes().to_vec());
        }
    }
    if let Some(m) = case.get("ext_code").and_then(|m| m.as_object()) {
        for (k, v) in m {
            let code = v.as_str().unwrap().as_bytes().to_vec();
            let (ctx, sid) = program.span_manager_mut().insert_source_context(code.len());
            cb.sources.add(sid, code.len());
            match program.load_source(ctx, &code, true, &format!("<extvar:{k}>")) {
                Ok(th) => {
                    let name = program.intern_str(k);
                    program.add_ext_var(name, &th);
                }
                Err(e) => {
                    return json!({"tool_error": format!("ext code does not load: {:?}", load_error_desc(&e, program.span_manager(), &cb.sources))});
                }
            }
        }
    }
    let sources: Vec<Vec<u8>> = case["sources"]
        .as_array()
        .unwrap()
        .iter()
        .map(|s| s.as_str().unwrap().as_bytes().to_vec())
        .collect();
    let mut latest: HashMap<usize, Thunk<'_>> = HashMap::new();
    let mut out = Vec::new();

    for req in case["reqs"].as_array().unwrap() {
        let op = req["op"].as_str().unwrap();
        match op {
            "gc" => {
                program.gc();
                out.push(json!({"gc": program.verif_num_objects()}));
                continue;
            }
            "max_stack" => {
                program.set_max_stack(req["s"].as_u64().unwrap() as usize);
                out.push(json!({"max_stack": req["s"]}));
                continue;
            }
            _ => {}
        }
        let i = req["src"].as_u64().unwrap() as usize;
        let thunk = if op == "again" && latest.contains_key(&i) {
            latest[&i].clone()
        } else {
            let src = &sources[i];
            let (ctx, sid) = program.span_manager_mut().insert_source_context(src.len());
            cb.sources.add(sid, src.len());
            match program.load_source(ctx, src, true, &format!("<src{i}>")) {
                Ok(t) => {
                    latest.insert(i, t.clone());
                    t
                }
                Err(e) => {
                    out.push(json!({"err": load_error_desc(&e, program.span_manager(), &cb.sources)}));
                    continue;
                }
            }
        };
        // arguments that are thunks of other sources (the latest load; loaded now if never loaded)
        let mut arg_thunks: HashMap<usize, Thunk<'_>> = HashMap::new();
        let mut arg_load_failed = false;
        if let Some(m) = req.get("args_src").and_then(|m| m.as_object()) {
            for (_, v) in m {
                let j = v.as_u64().unwrap() as usize;
                if !latest.contains_key(&j) {
                    let src = &sources[j];
                    let (ctx, sid) = program.span_manager_mut().insert_source_context(src.len());
                    cb.sources.add(sid, src.len());
                    match program.load_source(ctx, src, true, &format!("<src{j}>")) {
                        Ok(t) => {
                            latest.insert(j, t);
                        }
                        Err(e) => {
                            out.push(json!({"err": load_error_desc(&e, program.span_manager(), &cb.sources)}));
                            arg_load_failed = true;
                        }
                    }
                }
                if let Some(t) = latest.get(&j) {
                    arg_thunks.insert(j, t.clone());
                }
            }
        }
        if arg_load_failed {
            continue;
        }
        let manifest = req
            .get("manifest")
            .and_then(|m| m.as_str())
            .unwrap_or("multi")
            .to_string();
        cb.traces.clear();
        let r: Result<J, EvalError> = (|| {
            let mut value = program.eval_value(&thunk, &mut cb)?;
            if op == "call" {
                let mut named = Vec::new();
                if let Some(m) = req.get("args").and_then(|m| m.as_object()) {
                    for (k, v) in m {
                        let code = v.as_str().unwrap().as_bytes().to_vec();
                        let (ctx, sid) =
                            program.span_manager_mut().insert_source_context(code.len());
                        cb.sources.add(sid, code.len());
                        let th = program
                            .load_source(ctx, &code, true, &format!("<arg:{k}>"))
                            .expect("argument code must load");
                        named.push((program.intern_str(k), th));
                    }
                }
                if let Some(m) = req.get("args_src").and_then(|m| m.as_object()) {
                    for (k, v) in m {
                        let j = v.as_u64().unwrap() as usize;
                        let th = arg_thunks.get(&j).expect("argument source must be loaded").clone();
                        named.push((program.intern_str(k), th));
                    }
                }
                let f = program.value_to_thunk(&value);
                value = program.eval_call(&f, &[], &named, &mut cb)?;
            }
            if req.get("hold_gc").and_then(|h| h.as_bool()).unwrap_or(false) {
                // a collection while the caller holds nothing but the request's value
                program.gc();
            }
            match manifest.as_str() {
                "multi" => Ok(J::String(program.manifest_json(&value, true)?)),
                "none" => Ok(json!(if value.is_function() {
                    "function"
                } else if value.is_object() {
                    "object"
                } else if value.is_array() {
                    "array"
                } else {
                    "primitive"
                })),
                other => panic!("unknown manifest mode {other}"),
            }
        })();
        match r {
            Ok(v) => out.push(json!({"ok": v, "traces": cb.traces.clone()})),
            Err(e) => {
                let d = eval_error_desc(&e, program.span_manager(), &cb.sources);
                out.push(json!({"err": {"stage": "eval", "kind": d["kind"], "msg": d["msg"]}, "traces": cb.traces.clone()}));
            }
        }
    }
    json!({"outs": out})
}
