"""Comparison of an implementation outcome with a Sem.tla result (DESIGN Appendix A.5)."""
import json


def spec_value_to_py(v):
    t = v["t"]
    if t == "null":
        return None
    if t == "bool":
        return v["b"]
    if t == "num":
        x = v["s"] * v["m"] * (2 ** v["e"]) if v["e"] >= 0 else v["s"] * v["m"] / (2 ** -v["e"])
        return x
    if t == "str":
        return "".join(chr(c) for c in v["c"])
    if t == "arr":
        return [spec_value_to_py(x) for x in v["a"]]
    if t == "obj":
        return ("obj", [("".join(chr(c) for c in f["k"]), spec_value_to_py(f["v"])) for f in v["f"] if not f["h"]])
    raise ValueError(t)


def _pairs(pairs):
    return ("obj", [(k, v) for k, v in pairs])


def impl_json_to_py(text):
    return json.loads(text, object_pairs_hook=_pairs)


def same(a, b):
    if isinstance(a, bool) or isinstance(b, bool):
        return isinstance(a, bool) and isinstance(b, bool) and a == b
    if isinstance(a, (int, float)) and isinstance(b, (int, float)):
        return float(a) == float(b)
    if type(a) != type(b):
        return False
    if isinstance(a, list):
        return len(a) == len(b) and all(same(x, y) for x, y in zip(a, b))
    if isinstance(a, tuple):
        return (len(a[1]) == len(b[1]) and
                all(k1 == k2 and same(v1, v2) for (k1, v1), (k2, v2) in zip(a[1], b[1])))
    if isinstance(a, str):
        # Sem's numbers are integers without a negative zero: in text built from numbers the sign of
        # a zero is not decided ("" + (-0) is "-0", Sem says "0")
        return a == b or _unsigned_zeros(a) == _unsigned_zeros(b)
    return a == b


_NEG_ZERO = __import__("re").compile(r"-0(?![0-9.eE])")


def _unsigned_zeros(t):
    return _NEG_ZERO.sub("0", t)


def cps(s):
    return "".join(chr(c) for c in s)


def compare(spec, r):
    """spec: result tuple from Sem (list), r: harness result.
    Returns (verdict, detail) with verdict in agree|outside|disagree|crash."""
    if any(k in r for k in ("panic", "crash", "timeout")):
        return "crash", str(r.get("panic") or r.get("crash") or "timeout")[:300]
    tag = spec[0]
    if tag == "outside":
        return "outside", ""
    if tag == "bottom":
        return "agree", "bottom"
    if tag == "ok":
        if "ok" not in r:
            e = r["err"]
            return "disagree", f"specification gives a value, implementation fails: {e.get('stage')}/{e.get('kind')} {e.get('msg')}"
        try:
            got = impl_json_to_py(r["ok"])
        except Exception as ex:
            return "disagree", f"implementation output is not JSON: {ex}"
        exp = spec_value_to_py(spec[1])
        if same(exp, got):
            return "agree", "value"
        return "disagree", f"specification value {json.dumps(exp)} but implementation printed {r['ok'][:300]!r}"
    if tag == "err":
        kind = spec[1]
        if "ok" in r:
            return "disagree", f"specification says the program fails ({kind}), implementation gives {str(r['ok'])[:200]!r}"
        e = r["err"]
        if kind == "unbound":
            if e["stage"] == "analyze":
                return "agree", "static"
            return "disagree", f"unbound name must be rejected statically, got {e['stage']}/{e['kind']}"
        if e["stage"] != "eval":
            return "disagree", f"specification says run-time failure ({kind}), implementation rejected the program at {e['stage']}: {e.get('kind')}"
        if kind == "explicit":
            if e["kind"] == "ExplicitError" and isinstance(e.get("msg"), str) and same(e.get("msg"), cps(spec[2])):
                return "agree", "explicit"
            return "disagree", f"expected error {cps(spec[2])!r}, implementation reports {e['kind']} {e.get('msg')!r}"
        if kind == "assert":
            want = None if spec[2] == [-1] else cps(spec[2])
            if e["kind"] == "AssertFailed" and (e.get("msg") == want or (isinstance(want, str) and isinstance(e.get("msg"), str) and same(e.get("msg"), want))):
                return "agree", "assert"
            return "disagree", f"expected assertion failure {want!r}, implementation reports {e['kind']} {e.get('msg')!r}"
        if kind == "runtime":
            if e["kind"] in ("StackOverflow", "InfiniteRecursion", "ExplicitError", "AssertFailed"):
                return "disagree", f"expected a run-time type/lookup error, implementation reports {e['kind']} {e.get('msg')!r}"
            return "agree", "runtime"
        if kind == "any":
            return "agree", "any"
    raise ValueError(f"unknown spec result {spec!r}")
