"""Helpers of the C05 check: spelling of specification values as Jsonnet source (with
layered objects and shuffled field order), their Python counterparts, typed comparison with
what the target-language parsers return, and a strict RFC 8259 reading of JSON text."""
import ast
import json
import math
import re
from fractions import Fraction

import render

IDENT_RE = re.compile(r"^[A-Za-z_][A-Za-z0-9_]*$")
JSONNET_KEYWORDS = {"assert", "else", "error", "false", "for", "function", "if", "import", "importstr",
                    "importbin", "in", "local", "null", "tailstrict", "then", "self", "super", "true"}
PY_KEYWORDS = {"None", "True", "False", "and", "as", "assert", "async", "await", "break", "class", "continue",
               "def", "del", "elif", "else", "except", "finally", "for", "from", "global", "if", "import",
               "in", "is", "lambda", "nonlocal", "not", "or", "pass", "raise", "return", "try", "while",
               "with", "yield", "match", "case", "type", "_"}
NUM_RE = re.compile(r"-?(0|[1-9][0-9]*)(\.[0-9]+)?([eE][-+]?[0-9]+)?")


def text_of(cps):
    return "".join(chr(c) for c in cps)


def tla_seq(x):
    """A TLA+ sequence as it arrives through ToJson: a list, or {"1":..,"2":..} for functions."""
    if isinstance(x, dict):
        return [x[str(i)] for i in range(1, len(x) + 1)]
    return x


def norm_value(v):
    """Normalises the JSON form of a spec value (function-shaped sequences -> lists)."""
    t = v["t"]
    if t == "str":
        return {"t": "str", "c": tla_seq(v["c"])}
    if t == "arr":
        return {"t": "arr", "a": [norm_value(x) for x in tla_seq(v["a"])]}
    if t == "obj":
        return {"t": "obj", "f": [{"k": tla_seq(f["k"]), "h": f["h"], "v": norm_value(f["v"])}
                                  for f in tla_seq(v["f"])]}
    return v


# ---------------------------------------------------------------------------
# Jsonnet source for a value

def _key_src(k, r):
    lit = render.str_lit(k)
    if r is not None:
        x = r.random()
        if x < 0.2 and IDENT_RE.match(k) and k not in JSONNET_KEYWORDS:
            return k
        if x < 0.35:
            return "[" + lit + "]"
    return lit


def value_expr(v, r=None):
    """Jsonnet expression denoting spec value v.  With r (random.Random): field order is shuffled,
    objects are split into inheritance layers, visibility is reached through overrides."""
    t = v["t"]
    if t == "arr":
        items = [value_expr(x, r) for x in v["a"]]
        if r is not None and len(items) >= 2 and r.random() < 0.2:
            k = r.randrange(1, len(items))
            return "([" + ", ".join(items[:k]) + "] + [" + ", ".join(items[k:]) + "])"
        return "[" + ", ".join(items) + "]"
    if t != "obj":
        return render.value_expr(v, None)
    base, over, removed = [], [], []
    for f in v["f"]:
        k = render.cps_to_str(f["k"])
        e = value_expr(f["v"], r)
        ks = _key_src(k, r)
        x = r.random() if r is not None else 1.0
        if x >= 0.3:
            base.append(ks + ("::" if f["h"] else ":") + " " + e)
        elif not f["h"]:
            if x < 0.04:
                # a hidden definition is removed and the field is added again with default visibility:
                # nothing of the removed definition (not its visibility either) may survive
                base.append(ks + ":: null")
                removed.append(render.str_lit(k))
                over.append(ks + ": " + e)
            elif x < 0.15:
                base.append(ks + ":: null")
                over.append(ks + "::: " + e)          # ::: forces visibility
            else:
                base.append(ks + ": null")
                over.append(ks + ": " + e)
        else:
            if x < 0.15:
                base.append(ks + ": null")
                over.append(ks + ":: " + e)           # :: hides an inherited visible field
            else:
                base.append(ks + ":: null")
                over.append(ks + ": " + e)            # : inherits the hidden visibility
    if r is not None:
        r.shuffle(base)
        r.shuffle(over)
    if over:
        lower = "{" + ", ".join(base) + "}"
        for rk in removed:
            lower = "std.objectRemoveKey(" + lower + ", " + rk + ")"
        return "(" + lower + " + {" + ", ".join(over) + "})"
    if r is not None and len(base) >= 2 and r.random() < 0.3:
        k = r.randrange(1, len(base))
        return "({" + ", ".join(base[:k]) + "} + {" + ", ".join(base[k:]) + "})"
    return "{" + ", ".join(base) + "}"


# ---------------------------------------------------------------------------
# Python counterpart of a value (visible part), typed comparison

def pyvalue(v):
    t = v["t"]
    if t == "null":
        return None
    if t == "bool":
        return bool(v["b"])
    if t == "num":
        if v["m"] == 0:
            return -0.0 if v["s"] < 0 else 0.0
        return float(Fraction(v["s"] * v["m"]) * Fraction(2) ** v["e"])
    if t == "str":
        return render.cps_to_str(v["c"])
    if t == "arr":
        return [pyvalue(x) for x in v["a"]]
    if t == "obj":
        return {render.cps_to_str(f["k"]): pyvalue(f["v"]) for f in v["f"] if not f["h"]}
    raise ValueError(t)


def same(exp, got, signed_zero=False):
    """exp: pyvalue(...) (numbers are floats).  got: what a parser returned."""
    if exp is None:
        return got is None
    if isinstance(exp, bool):
        return isinstance(got, bool) and got == exp
    if isinstance(exp, float):
        if isinstance(got, bool) or not isinstance(got, (int, float)):
            return False
        if isinstance(got, float) and not math.isfinite(got):
            return False
        if got != exp:
            return False
        return (not signed_zero) or math.copysign(1.0, float(got)) == math.copysign(1.0, exp)
    if isinstance(exp, str):
        return isinstance(got, str) and got == exp
    if isinstance(exp, list):
        return isinstance(got, list) and len(got) == len(exp) and all(
            same(a, b, signed_zero) for a, b in zip(exp, got))
    if isinstance(exp, dict):
        return (isinstance(got, dict) and set(got.keys()) == set(exp.keys())
                and all(isinstance(k, str) for k in got.keys())
                and all(same(exp[k], got[k], signed_zero) for k in exp))
    return False


def visible_walk(v):
    """Yields every value reachable through array elements and visible fields."""
    yield v
    if v["t"] == "arr":
        for x in v["a"]:
            yield from visible_walk(x)
    elif v["t"] == "obj":
        for f in v["f"]:
            if not f["h"]:
                yield from visible_walk(f["v"])


def has_null(v):
    return any(x["t"] == "null" for x in visible_walk(v))


def has_string_ending_in_newline(v):
    return any(x["t"] == "str" and x["c"] and x["c"][-1] == 10 for x in visible_walk(v))


def visible_keys(v):
    return [render.cps_to_str(f["k"]) for f in v["f"] if not f["h"]]


def all_keys_deep(v):
    for x in visible_walk(v):
        if x["t"] == "obj":
            yield from visible_keys(x)


def nontrivial(v):
    """Not a bare null/bool/plain-ASCII-letter scalar: something an encoder can get wrong."""
    t = v["t"]
    if t in ("null", "bool"):
        return False
    return True


# ---------------------------------------------------------------------------
# strict RFC 8259 reading with Python's json

class NotJson(Exception):
    pass


def _no_const(name):
    raise NotJson("non-JSON constant " + name)


def json_strict(text):
    """Returns (value, sorted_unique_keys: bool).  Raises NotJson."""
    state = {"sorted": True}

    def pairs(ps):
        ks = [k for k, _ in ps]
        for a, b in zip(ks, ks[1:]):
            if not a < b:
                state["sorted"] = False
        return dict(ps)

    try:
        val = json.loads(text, parse_int=float, parse_float=float, parse_constant=_no_const,
                         object_pairs_hook=pairs, strict=True)
    except NotJson:
        raise
    except (ValueError, RecursionError) as e:
        raise NotJson(str(e))
    return val, state["sorted"]


def first_diff(exp, got):
    """Human-readable description of the first differing position of two texts."""
    n = min(len(exp), len(got))
    i = 0
    while i < n and exp[i] == got[i]:
        i += 1

    def cp(s):
        return "end" if i >= len(s) else "U+%04X" % ord(s[i])
    return i, cp(exp), cp(got)


# ---------------------------------------------------------------------------
# target-language parsers

def decode_python(doc):
    return ast.literal_eval(doc)


def decode_python_vars(doc):
    tree = ast.parse(doc)
    out = {}
    for st in tree.body:
        if not (isinstance(st, ast.Assign) and len(st.targets) == 1 and isinstance(st.targets[0], ast.Name)):
            raise ValueError("not a sequence of `name = literal` statements")
        if st.targets[0].id in out:
            raise ValueError("duplicate variable")
        out[st.targets[0].id] = ast.literal_eval(st.value)
    return out


def decode_toml(doc):
    import tomllib
    return tomllib.loads(doc)


def decode_yaml(doc):
    import yaml
    return yaml.safe_load(doc)


def decode_yaml_all(doc):
    import yaml
    return list(yaml.safe_load_all(doc))


# YAML 1.2 core schema: plain scalars that are NOT strings (information only)
_Y12 = re.compile(r"^(null|Null|NULL|~|true|True|TRUE|false|False|FALSE|[-+]?[0-9]+|0o[0-7]+|0x[0-9a-fA-F]+"
                  r"|[-+]?(\.[0-9]+|[0-9]+(\.[0-9]*)?)([eE][-+]?[0-9]+)?|[-+]?\.(inf|Inf|INF)|\.(nan|NaN|NAN))$")


def yaml12_core_nonstring(s):
    return s == "" or bool(_Y12.match(s))
