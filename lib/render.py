"""Rendering of specification values (spec/Values.tla encoding) as Jsonnet source text,
and decoding of manifested JSON back into that encoding."""
import json
from fractions import Fraction


def cps_to_str(cps):
    return "".join(chr(c) for c in cps)


def str_lit(s):
    """A Jsonnet double-quoted literal for Python string s (raw UTF-8 except controls)."""
    out = ['"']
    for ch in s:
        o = ord(ch)
        if ch == '"':
            out.append('\\"')
        elif ch == "\\":
            out.append("\\\\")
        elif o < 0x20 or 0x7F <= o <= 0x9F or o in (0x2028, 0x2029):
            out.append("\\u%04x" % o)
        elif 0xD800 <= o <= 0xDFFF:
            raise ValueError("lone surrogate cannot be written in Jsonnet source")
        else:
            out.append(ch)
    out.append('"')
    return "".join(out)


def num_text(s, m, e, d=0):
    """Exact decimal text of s*m*2^e (dyadic => finite decimal expansion); with d != 0 (Values.tla NumD,
    m = 1) of the double |d| grid steps above / below the power of two 2^e."""
    if m == 0:
        return "-0" if s < 0 else "0"
    fr = Fraction(m) * (Fraction(2) ** e)
    if d > 0:
        fr += d * Fraction(2) ** (e - 52)
    elif d < 0:
        fr += d * Fraction(2) ** (e - 53)
    if fr.denominator == 1:
        t = str(fr.numerator)
    else:
        # denominator is a power of two: multiply up to a power of ten
        k = fr.denominator.bit_length() - 1
        num = fr.numerator * (5 ** k)
        digits = str(num).rjust(k + 1, "0")
        t = digits[:-k] + "." + digits[-k:]
        t = t.rstrip("0").rstrip(".")
    return ("-" if s < 0 else "") + t


def value_expr(v, r=None):
    """Jsonnet expression denoting spec value v. r: optional random.Random for spelling variation."""
    t = v["t"]
    if t == "null":
        return "null"
    if t == "bool":
        return "true" if v["b"] else "false"
    if t == "num":
        txt = num_text(v["s"], v["m"], v["e"], v.get("d", 0))
        return "(" + txt + ")" if txt.startswith("-") else txt
    if t == "str":
        return str_lit(cps_to_str(v["c"]))
    if t == "arr":
        return "[" + ", ".join(value_expr(x, r) for x in v["a"]) + "]"
    if t == "obj":
        fields = [str_lit(cps_to_str(f["k"])) + ("::" if f["h"] else ":") + " " + value_expr(f["v"], r)
                  for f in v["f"]]
        if r is not None and len(fields) >= 2 and r.random() < 0.5:
            k = r.randrange(1, len(fields))
            return "({" + ", ".join(fields[:k]) + "} + {" + ", ".join(fields[k:]) + "})"
        if r is not None and len(fields) >= 1 and r.random() < 0.2:
            return "({} + {" + ", ".join(fields) + "})"
        return "{" + ", ".join(fields) + "}"
    if t == "func":
        return "(function(x) x)"
    if t == "err":
        return '(error "E")'
    raise ValueError(t)
