"""Helpers for C06 (spec/Num.tla): symbolic doubles <-> host doubles, Jsonnet literal spellings,
literal shapes, host-IEEE reference used to cross-check the specification, random doubles."""
import ctypes
import ctypes.util
import math
import re
import struct
from fractions import Fraction

MAXF = 1.7976931348623157e308
M53 = float(2 ** 53 - 1)


# ---------------------------------------------------------------------------
# symbolic values of spec/Num.tla

def sym_to_float(v):
    if v["k"] == "z":
        return -0.0 if v["s"] < 0 else 0.0
    if v["k"] == "p":
        return math.ldexp(float(v["s"]), v["e"])
    if v["k"] == "m":
        return math.ldexp(v["s"] * M53, v["e"])
    raise ValueError(v)


def sym_name(v):
    sg = "-" if v["s"] < 0 else ""
    if v["k"] == "z":
        return sg + "0"
    if v["k"] == "p":
        return f"{sg}2^{v['e']}"
    return f"{sg}(2^53-1)*2^{v['e']}" if v["e"] else f"{sg}(2^53-1)"


# ---------------------------------------------------------------------------
# Jsonnet spellings of a double

def exact_decimal(f):
    """The exact (finite) decimal expansion of |f|, no exponent."""
    fr = Fraction(abs(f))
    if fr.denominator == 1:
        return str(fr.numerator)
    k = fr.denominator.bit_length() - 1
    num = fr.numerator * (5 ** k)
    digits = str(num).rjust(k + 1, "0")
    t = digits[:-k] + "." + digits[-k:]
    return t.rstrip("0").rstrip(".")



def frac_decimal(fr):
    """Exact finite decimal expansion of a non-negative Fraction whose denominator is 2^a * 5^b."""
    d = fr.denominator
    k = 0
    while d % 10 == 0:
        d //= 10
        k += 1
    a = 0
    while d % 2 == 0:
        d //= 2
        a += 1
    b = 0
    while d % 5 == 0:
        d //= 5
        b += 1
    assert d == 1, "not a finite decimal"
    k += max(a, b)
    num = fr.numerator * 10 ** k // fr.denominator
    assert Fraction(num, 10 ** k) == fr
    if k == 0:
        return str(num)
    digits = str(num).rjust(k + 1, "0")
    t = digits[:-k] + "." + digits[-k:]
    return t.rstrip("0").rstrip(".")


def midpoint_literal(a, side, r):
    """(literal text, correctly rounded double) for a decimal just above (side=1), just below (-1) or
    exactly at (0) the midpoint of the finite double a >= 0 and its successor.  The expected double is
    computed by exact rational comparison (round to nearest, ties to the even significand), not by
    the host's strtod.  The text may be positional or scientific and may carry digit separators."""
    nxt = math.nextafter(a, math.inf)
    assert math.isfinite(nxt)
    fa, fn = Fraction(a), Fraction(nxt)
    mid = (fa + fn) / 2
    t = frac_decimal(mid)
    nfrac = len(t.split(".")[1]) if "." in t else 0
    eps = Fraction(1, 10 ** (nfrac + r.randrange(1, 30)))
    if side > 0:
        val, want = mid + eps, nxt
    elif side < 0:
        val, want = mid - eps, a
    else:
        val = mid
        ma, _ = math.frexp(a)
        even_a = (int(ma * 2 ** 53) % 2 == 0) if a >= 2.2250738585072014e-308 else (int(Fraction(a) / Fraction(5e-324)) % 2 == 0)
        want = a if even_a else nxt
    # independent confirmation of the expected value by exact distance comparison
    da, dn = abs(val - fa), abs(val - fn)
    assert (da < dn and want == a) or (dn < da and want == nxt) or (da == dn and side == 0)
    t = frac_decimal(val)
    if r.random() < 0.4:
        ip, _, fp = t.partition(".")
        digits = (ip + fp).lstrip("0")
        exp = len(ip) - 1 if ip.strip("0") else -(len(fp) - len(fp.lstrip("0")) + 1)
        if ip.strip("0"):
            digits = ip.lstrip("0") + fp
            exp = len(ip.lstrip("0")) - 1
        t = digits[0] + ("." + digits[1:] if len(digits) > 1 else "") + "e" + str(exp)
        assert Fraction(t.split("e")[0]) * Fraction(10) ** exp == val
    if r.random() < 0.3:
        out = []
        for i, ch in enumerate(t):
            out.append(ch)
            if (ch.isdigit() and i + 1 < len(t) and t[i + 1].isdigit() and "e" not in t[:i + 1]
                    and r.random() < 0.08):
                out.append("_")
        t = "".join(out)
    return t, want

def _jsonnet_num(t):
    """Makes a Python float spelling a Jsonnet number token (no leading '.', no 'inf')."""
    t = t.lower()
    if "e" in t:
        m, e = t.split("e")
        if "." in m and m.endswith("."):
            m = m[:-1]
        return m + "e" + e
    return t


def float_lit(f, style=0):
    """Jsonnet expression for the finite double f.  style 0: shortest (repr); 1: 17 significant
    digits; 2: exact decimal expansion; 3: 25 significant digits, scientific."""
    assert math.isfinite(f)
    neg = math.copysign(1.0, f) < 0
    a = abs(f)
    if a == 0.0:
        t = "0" if style != 3 else "0.0e0"
    elif style == 0:
        t = _jsonnet_num(repr(a))
    elif style == 1:
        t = _jsonnet_num("%.17g" % a)
    elif style == 2:
        t = exact_decimal(a)
    else:
        t = _jsonnet_num("%.24e" % a)
    if t.endswith(".0"):
        t = t[:-2]
    return "(-" + t + ")" if neg else t


def sig_digits(text):
    """Significant decimal digits of a number text: (digit string without leading/trailing zeros)."""
    t = text.strip().lstrip("+-").lower()
    if "e" in t:
        t = t.split("e")[0]
    t = t.replace(".", "").replace("_", "")
    t = t.lstrip("0").rstrip("0")
    return t


NUM_RE = re.compile(r"^-?(0|[1-9][0-9]*)(\.[0-9]+)?([eE][+-]?[0-9]+)?$")


def parse_number_text(t):
    """Manifested number text -> float, or 'nonfinite:<text>' / None when it is not a JSON number."""
    t = t.strip()
    if NUM_RE.match(t):
        return float(t)
    if re.match(r"^-?(inf|infinity|nan)$", t, re.I):
        return "nonfinite:" + t
    return None


# ---------------------------------------------------------------------------
# literal shapes of MC_Num (runs of digits)

def runs_text(runs):
    return "".join(str(d) * n for d, n in runs)


def underscores(digits, r, p=0.3):
    """Inserts single '_' between digits at seeded positions."""
    if len(digits) < 2:
        return digits
    out = [digits[0]]
    for ch in digits[1:]:
        if r.random() < p:
            out.append("_")
        out.append(ch)
    return "".join(out)


def lit_text(l, r=None, us=False, style=0):
    """Source text of a literal shape. style bits: 1 = 'E', 2 = explicit '+', 4 = leading zero in exponent."""
    ip = runs_text(l["ip"])
    fp = runs_text(l["fp"]) if l["hasf"] else None
    if us and r is not None:
        ip = underscores(ip, r, 0.3 if len(ip) < 40 else 0.05)
        if fp:
            fp = underscores(fp, r, 0.3 if len(fp) < 40 else 0.05)
    t = ip
    if fp is not None:
        t += "." + fp
    if l["hase"]:
        ex = l["ex"]
        ed = str(abs(ex))
        if style & 4:
            ed = "0" + ed
        if us and r is not None:
            ed = underscores(ed, r, 0.3)
        sign = "-" if ex < 0 else ("+" if style & 2 else "")
        t += ("E" if style & 1 else "e") + sign + ed
    return t


# ---------------------------------------------------------------------------
# host IEEE-754 reference (cross-check of the specification; oracle only for the random-double part)

_libm = ctypes.CDLL(ctypes.util.find_library("m") or "libm.so.6")
for _n in ("pow", "hypot", "atan2", "fmod"):
    getattr(_libm, _n).restype = ctypes.c_double
    getattr(_libm, _n).argtypes = [ctypes.c_double, ctypes.c_double]
for _n in ("exp", "log", "log2", "log10", "sin", "cos", "tan", "asin", "acos", "atan", "sqrt", "floor", "ceil"):
    getattr(_libm, _n).restype = ctypes.c_double
    getattr(_libm, _n).argtypes = [ctypes.c_double]


def _safe_int(x):
    if not (-M53 <= x <= M53):
        return None
    return int(x)


def host(op, a):
    """Host IEEE result of operator `op` on floats a: a float (possibly inf/nan), ('err', why),
    a list (sort) or None (no host reference for this operator/operand)."""
    x = a[0] if a else None
    y = a[1] if len(a) > 1 else None
    if op == "pos":
        return x
    if op == "neg":
        return -x
    if op == "add":
        return x + y
    if op == "sub":
        return x - y
    if op == "mul":
        return x * y
    if op == "div":
        return ("err", "div0") if y == 0 else _div(x, y)
    if op in ("mod", "modulo"):
        return ("err", "div0") if y == 0 else _libm.fmod(x, y)
    if op in ("floor", "ceil", "sqrt", "exp", "log", "log2", "log10", "sin", "cos", "tan", "asin", "acos", "atan"):
        return getattr(_libm, op)(x)
    if op == "round":
        return _libm.floor(x + 0.5)
    if op == "abs":
        return x if x > 0 else -x
    if op == "sign":
        return 1.0 if x > 0 else (-1.0 if x < 0 else 0.0)
    if op == "mantissa":
        return math.frexp(x)[0]
    if op == "exponent":
        return float(math.frexp(x)[1])
    if op == "deg2rad":
        return x * (math.pi / 180.0)
    if op == "rad2deg":
        return x * (180.0 / math.pi)
    if op in ("pow", "hypot", "atan2"):
        return getattr(_libm, op)(x, y)
    if op == "max":
        return x if x > y else y
    if op == "min":
        return x if x < y else y
    if op == "clamp":
        lo, hi = a[1], a[2]
        return lo if x < lo else (hi if x > hi else x)
    if op == "bitnot":
        i = _safe_int(x)
        return ("err", "unsafe") if i is None else float(~i)
    if op in ("band", "bor", "bxor"):
        i, j = _safe_int(x), _safe_int(y)
        if i is None or j is None:
            return ("err", "unsafe")
        return float(i & j if op == "band" else (i | j if op == "bor" else i ^ j))
    if op in ("shl", "shr"):
        i, j = _safe_int(x), _safe_int(y)
        if i is None or j is None:
            return ("err", "unsafe")
        if j < 0:
            return ("err", "negshift")
        if math.copysign(1.0, y) < 0:
            return None
        n = j % 64
        if op == "shr":
            return float(i >> n)
        v = i << n
        if not (-2 ** 63 <= v < 2 ** 63):
            return None
        return float(v)
    if op in ("sum", "foldl"):
        s = 0.0
        for v in a:
            s = s + v
            if not math.isfinite(s):
                return s          # the fold fails here
        return s
    if op == "avg":
        if not a:
            return ("err", "empty")
        s = host("sum", a)
        return s if not math.isfinite(s) else s / len(a)
    if op == "minArray":
        return ("err", "empty") if not a else min(a)
    if op == "maxArray":
        return ("err", "empty") if not a else max(a)
    if op == "sort":
        return sorted(a)
    return None


def _div(x, y):
    try:
        return x / y
    except OverflowError:      # pragma: no cover  (Python floats do not raise here)
        return math.copysign(math.inf, x) * math.copysign(1.0, y)


def spec_vs_host(r, h):
    """Does specification result r (dict) agree with host result h?  Returns None if fine,
    else a description.  'any' and missing host references agree with everything."""
    c = r["c"]
    if c == "any" or h is None:
        return None
    if isinstance(h, tuple):
        return None if c == "err" else f"spec {r} host error {h[1]}"
    if c == "err":
        return f"spec error {r.get('w')} host {h!r}"
    if c == "arr":
        exp = [sym_to_float(v) for v in r["a"]]
        return None if exp == h else f"spec {exp} host {h}"
    if c == "ovf":
        return None if math.isinf(h) else f"spec overflow, host {h!r}"
    if c == "nan":
        return None if math.isnan(h) else f"spec NaN, host {h!r}"
    if not math.isfinite(h):
        return f"spec {r}, host {h!r}"
    if c == "val":
        e = sym_to_float(r["v"])
        return None if e == h else f"spec value {e!r}, host {h!r}"
    if c == "int":
        return None if float(r["n"]) == h else f"spec int {r['n']}, host {h!r}"
    if c == "fin":
        return None if r["b"] >= 1024 or abs(h) < math.ldexp(1.0, r["b"]) else f"spec |v| < 2^{r['b']}, host {h!r}"
    return f"unknown class {c}"


# ---------------------------------------------------------------------------
# random doubles

def bits_to_float(b):
    return struct.unpack("<d", struct.pack("<Q", b))[0]


def float_to_bits(f):
    return struct.unpack("<Q", struct.pack("<d", f))[0]


def random_double(r, big=0.0):
    """A finite double: uniform sign/exponent/mantissa; with probability `big` an exponent near the top."""
    while True:
        k = r.random()
        if k < big:
            e = r.randrange(2046 - 3, 2047)
        elif k < big + 0.1:
            e = r.randrange(0, 3)                     # subnormals and the smallest normals
        elif k < big + 0.5:
            e = r.randrange(1023 - 70, 1023 + 70)     # human-scale numbers
        else:
            e = r.randrange(0, 2047)
        m = r.getrandbits(52)
        sh = r.random()
        if sh < 0.15:
            m = 0
        elif sh < 0.25:
            m = (1 << 52) - 1
        elif sh < 0.4:
            m &= ~((1 << r.randrange(1, 52)) - 1)      # few significant bits
        f = bits_to_float((r.getrandbits(1) << 63) | (e << 52) | m)
        if math.isfinite(f):
            return f


def decimalish_double(r):
    """Doubles that come from short decimal texts (0.1, 12.5, 1e22, 123456789.123, ...)."""
    k = r.random()
    if k < 0.3:
        n = r.randrange(1, 10 ** r.randrange(1, 17))
        return float(n) / (10 ** r.randrange(0, 12))
    if k < 0.5:
        return float("1e%d" % r.randrange(-323, 309))
    if k < 0.7:
        return float("%de%d" % (r.randrange(1, 1000), r.randrange(-320, 306)))
    if k < 0.85:
        return float(r.randrange(0, 2 ** 63))
    return float(r.randrange(1, 10 ** 17)) * 10.0 ** r.randrange(-30, 30)
