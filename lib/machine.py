"""Recording of evaluator runs (hook events) and their validation with TLC against
spec/Trace_Machine.tla (impl -> spec direction)."""
import json
import os

import vlib
import corpus
from vlib import run_tlc, run_cases

EV_NAMES = {"begin", "end", "sw", "dn", "fpush", "fdelay", "fpop", "fresume", "step", "overflow",
            "infrec", "nonfinite", "gc", "restore"}


def to_records(events):
    """Harness event arrays -> records for the trace spec, thunk ids renumbered from 1."""
    ids = {}

    def tid(x):
        if x not in ids:
            ids[x] = len(ids) + 1
        return ids[x]

    out = []
    for e in events:
        k = e[0]
        if k == "begin":
            out.append({"ev": "begin", "kind": e[1], "limit": min(e[2], 1_000_000)})
        elif k == "end":
            out.append({"ev": "end", "ok": bool(e[1]), "frames": e[2]})
        elif k == "sw":
            out.append({"ev": "sw", "id": tid(e[1]), "from": e[2], "to": e[3]})
        elif k == "dn":
            out.append({"ev": "dn", "id": tid(e[1]), "was": e[2]})
        elif k in ("fpush", "fdelay", "fpop", "fresume"):
            out.append({"ev": k, "frames": e[1]})
        elif k in ("step", "overflow"):
            out.append({"ev": k, "frames": e[1], "limit": min(e[2], 1_000_000)})
        elif k == "infrec":
            out.append({"ev": "infrec", "id": tid(e[1])})
        elif k == "restore":
            out.append({"ev": "restore", "id": tid(e[1])})
        elif k == "nonfinite":
            out.append({"ev": "nonfinite", "class": e[1]})
        elif k == "gc":
            out.append({"ev": "gc", "before": e[1], "after": e[2]})
        else:
            raise vlib.ToolError(f"unknown event {e!r}")
    return out


def validate_runs(chk, runs, label, prop_kind="trace", chunk_events=25000):
    """runs: list of (name, case, records). Validates all of them with TLC; a rejected run is
    reported through chk.disagree and validation continues after it. Returns #events validated."""
    d = vlib.workdir("traces")
    total_events = 0
    i = 0
    chunk_no = 0
    while i < len(runs):
        # assemble a chunk
        j = i
        lines = []
        owners = []   # (run index, first line, last line) 1-based line numbers
        while j < len(runs) and (len(lines) < chunk_events or j == i):
            recs = runs[j][2]
            first = len(lines) + 1
            lines.append({"ev": "reset"})
            lines.extend(recs)
            owners.append((j, first, len(lines)))
            j += 1
        path = os.path.join(d, f"{label}_{chunk_no}.ndjson")
        with open(path, "w") as f:
            for rec in lines:
                f.write(json.dumps(rec, separators=(",", ":")))
                f.write("\n")
        res = run_tlc("Trace_Machine", "Trace_Machine.cfg", f"{label}_trace_{chunk_no}", workers=1,
                      env={"TRACE": path}, timeout=1800, deque=True, coverage=False, heap="3g", stack="1g")
        chunk_no += 1
        chk.add_tlc(res, f"trace validation {label} chunk {chunk_no} ({len(lines)} events, {len(owners)} runs)")
        if res.rc == 0 and not res.error:
            total_events += len(lines)
            chk.traces_validated += len(owners)
            i = j
            continue
        # rejected: find the first unmatched event
        pos = None
        with open(res.out_path, errors="replace") as f:
            for line in f:
                if line.startswith('<<"REJECT"'):
                    try:
                        pos = int(line.split(",")[1].strip())
                    except Exception:
                        pos = None
        if pos is None:
            raise vlib.ToolError(f"trace validation failed without a REJECT line: see {res.out_path}\n{res.error}")
        owner = None
        for (ri, first, last) in owners:
            if first <= pos <= last:
                owner = (ri, first, last)
        if owner is None:
            raise vlib.ToolError(f"rejected position {pos} outside the chunk; see {res.out_path}")
        ri, first, last = owner
        name, case, recs = runs[ri]
        ev = lines[pos - 1]
        ctx = lines[max(first, pos - 6) - 1:pos]
        cls = "nonfinite-value" if ev.get("ev") == "nonfinite" else "unexplained-event"
        chk.disagree({"kind": prop_kind, "class": cls, "event": ev.get("ev")},
                     f"{name}: event #{pos - first} {json.dumps(ev)} is not explained by any action of the "
                     f"Machine specification (preceding events: {json.dumps(ctx[:-1])})",
                     dict(case, rejected_event=ev, event_index=pos - first))
        chk.traces_validated += sum(1 for (r2, _, _) in owners if r2 < ri)
        total_events += first - 1
        i = ri + 1
    return total_events


def record_programs(programs, max_events=4000, max_stack=None, gc=None, timeout_ms=20000, label="rec"):
    """programs: list of (name, src bytes/str, extra case fields). Returns list of (name, case, records)
    for runs whose event list is complete (not truncated, no crash)."""
    cases = []
    for name, src, extra in programs:
        c = {"k": "eval", "events": True, "max_events": max_events, "manifest": "multi"}
        if isinstance(src, bytes):
            c["src_bytes"] = list(src)
        else:
            c["src"] = src
        if max_stack is not None:
            c["max_stack"] = max_stack
        if gc is not None:
            c["gc"] = gc
        c.update(extra or {})
        cases.append(c)
    results = run_cases(cases, label, timeout_ms=timeout_ms)
    runs = []
    skipped = 0
    for (name, _, _), c, r in zip(programs, cases, results):
        if vlib.is_crash(r) or "events" not in r or r.get("truncated"):
            skipped += 1
            continue
        runs.append((name, c, to_records(r["events"]), r))
    return runs, skipped


def default_programs(tier, seed, want_fail=True):
    progs = []
    for name, data in corpus.ui_programs(subdirs=("pass", "sanity", "fail") if want_fail else ("pass", "sanity")):
        progs.append((name, data, None))
    return progs


def thunk_trace_part(chk, tier, seed):
    """C04 (a): Machine model check + thunk/frames events of real runs validated against Trace_Machine."""
    res = run_tlc("MC_Machine", "MC_Machine_quick.cfg" if tier == "quick" else "MC_Machine_thorough.cfg",
                  "machine_mc", workers=8, timeout=3000, coverage=False)
    vlib.tlc_must_pass(res, "Machine model (EvalOnce, DemandedOnly, FramesBalanced, WithinLimit, HistoryIndependent)")
    chk.add_tlc(res, "Machine exhaustive")
    budget = 150_000 if tier == "quick" else 1_500_000
    runs, skipped = record_programs(default_programs(tier, seed), max_events=3000 if tier == "quick" else 20000,
                                    max_stack=200, label="c04_rec")
    r = vlib.rng(seed, "c04trace")
    r.shuffle(runs)
    sel, n = [], 0
    for run in runs:
        if n + len(run[2]) > budget:
            continue
        sel.append(run[:3])
        n += len(run[2]) + 1
    nev = validate_runs(chk, sel, "c04")
    chk.extra["trace_runs_recorded"] = len(runs)
    chk.extra["trace_runs_validated"] = len(sel)
    chk.extra["trace_events_validated"] = nev
    chk.extra["trace_runs_skipped_truncated"] = skipped
    if sel:
        chk.sample({"trace_of": sel[0][0], "first_events": sel[0][2][:12]}, limit=8)
