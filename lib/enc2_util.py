"""Second part of C05: the text-producing members of the standard library that spec/Encode.tla does
not define (spec/Encode2.tla): std.manifestIni, std.manifestXmlJsonml, std.manifestYamlStream (at the
stream level), std.deepJoin, std.lines, std.equalsIgnoreCase, std.resolvePath, std.isEmpty,
std.objectKeysValuesAll.

TLC (spec/MC_Encode2.tla) enumerates the inputs, checks the reading laws on the specification and
prints one CASE per input with the expected text, `error` or `outside`.  Every case is spelled as a
Jsonnet program (objects in layers, shuffled fields, hidden fields reached through overrides, named
arguments), executed by the real implementation and compared text for text; an expected error must be
an evaluation error (never a document, never a crash).  Inside the decided domain of the reading laws
the produced INI / XML / YAML documents are decoded by python's configparser / xml.etree.ElementTree /
PyYAML and compared with what the specification says a reader finds."""
import configparser
import json
import xml.etree.ElementTree as ET

import vlib
import render
import c05_util as U
from vlib import run_tlc, tlc_must_pass, run_cases

FN = {"ini": "std.manifestIni", "xml": "std.manifestXmlJsonml", "ys": "std.manifestYamlStream",
      "dj": "std.deepJoin", "lines": "std.lines", "eqic": "std.equalsIgnoreCase", "rp": "std.resolvePath",
      "empty": "std.isEmpty", "kva": "std.objectKeysValuesAll"}
# parameter names of upstream std.jsonnet (a call with named arguments must work)
PARAMS = {"ini": ["ini"], "xml": ["value"], "dj": ["arr"], "lines": ["arr"], "eqic": ["str1", "str2"],
          "rp": ["f", "r"], "empty": ["str"], "kva": ["o"],
          "ys": ["value", "indent_array_in_object", "c_document_end", "quote_keys"]}
TLC_WORKERS = 2          # every case is an initial state (computed by one thread); the machine is shared


def jb(b):
    return "true" if b else "false"


# ---------------------------------------------------------------------------
# decoding of the CASE lines

def _text(x):
    return U.text_of(U.tla_seq(x))


def _result(r):
    if r["r"] == "text":
        return {"r": "text", "parts": list(U.tla_seq(r["t"]))}
    return {"r": r["r"], "why": r.get("why")}


def _ini_model(m):
    def pairs(ps):
        return [(_text(U.tla_seq(p)[0]), _text(U.tla_seq(p)[1])) for p in U.tla_seq(ps)]
    return {"main": pairs(m["main"]),
            "secs": [(_text(s["n"]), pairs(s["kv"])) for s in U.tla_seq(m["secs"])]}


def load_cases(res):
    out = []
    for c in res.lines("CASE"):
        d = {"fn": c["fn"], "a": U.norm_value(c["a"]), "b": U.norm_value(c["b"]),
             "st": [bool(x) for x in U.tla_seq(c["st"])], "exp": _result(c["r"]), "dec": None, "shape": None}
        x = c["x"]
        if x.get("dec"):
            if c["fn"] == "ini":
                d["dec"] = _ini_model(x["model"])
            elif c["fn"] == "xml":
                d["dec"] = U.pyvalue(U.norm_value(x["tree"]))
        if "shape" in x:
            d["shape"] = _text(x["shape"])
        out.append((json.dumps([d["fn"], d["a"], d["b"], d["st"]], sort_keys=True), d))
    out.sort(key=lambda kd: kd[0])            # TLC's output order depends on scheduling
    return [d for _, d in out]


# ---------------------------------------------------------------------------
# target-language readers

class _Multi(dict):
    """configparser stores the lines of an option as a list: repeated options are appended."""

    def __setitem__(self, k, v):
        if isinstance(v, list) and k in self:
            self[k].extend(v)
        else:
            super().__setitem__(k, v)


MAIN_SECTION = "\x00main"


def decode_ini(text):
    """{'main': [(key, [values])], 'secs': [(name, [(key, [values])])]} as configparser reads the document
    (keys before the first section header are read under a reserved section name)."""
    cp = configparser.RawConfigParser(dict_type=_Multi, strict=False, default_section="\x00default",
                                      interpolation=None, delimiters=("=",), comment_prefixes=("#", ";"),
                                      inline_comment_prefixes=None, empty_lines_in_values=False)
    cp.optionxform = str
    cp.read_string("[" + MAIN_SECTION + "]\n" + text)
    secs = [(s, [(k, v) for k, v in cp.items(s, raw=True)]) for s in cp.sections()]
    if not secs or secs[0][0] != MAIN_SECTION:
        raise ValueError("reserved main section lost")
    return {"main": secs[0][1], "secs": secs[1:]}


def ini_expected(model):
    """The model of the specification in the form decode_ini returns: the values of a repeated key are the
    lines of one multi-line value (configparser joins them with LF and strips the end)."""
    def group(pairs):
        out = []
        for k, v in pairs:
            if out and out[-1][0] == k:
                out[-1][1].append(v)
            else:
                out.append((k, [v]))
        return [(k, "\n".join(vs).rstrip()) for k, vs in out]
    return {"main": group(model["main"]), "secs": [(n, group(kv)) for n, kv in model["secs"]]}


def decode_xml(text):
    """JsonML normal form [tag, {attributes}, children...] (text merged, empty text dropped)."""
    def tree(e):
        out = [e.tag, dict(e.attrib)]
        if e.text:
            out.append(e.text)
        for ch in e:
            out.append(tree(ch))
            if ch.tail:
                out.append(ch.tail)
        return out
    return tree(ET.fromstring(text))


# ---------------------------------------------------------------------------
# Jsonnet programs of a case

def _call(fn, args, r):
    """fn(args) with positional or (sometimes) named arguments."""
    names = PARAMS[fn]
    x = r.random()
    if x < 0.2:
        parts = [f"{n}={a}" for n, a in zip(names, args)]
        if len(parts) > 1 and r.random() < 0.5:
            parts.reverse()
        return f"{FN[fn]}({', '.join(parts)})"
    if x < 0.3 and len(args) > 1:
        return f"{FN[fn]}({args[0]}, " + ", ".join(f"{n}={a}" for n, a in zip(names[1:], args[1:])) + ")"
    return f"{FN[fn]}({', '.join(args)})"


def jobs_of(c, r):
    """Harness jobs of one TLC case: [{case, exp, fn, kind, ...}]."""
    fn = c["fn"]
    va = U.value_expr(c["a"], r)
    base = {"fn": FN[fn], "kind": fn, "c": c}
    if fn in ("ini", "xml", "dj", "lines"):
        return [dict(base, case={"k": "eval", "manifest": "string", "src": _call(fn, [va], r)}, exp=c["exp"],
                     dec=c["dec"])]
    if fn == "rp":
        vb = U.value_expr(c["b"], r)
        return [dict(base, case={"k": "eval", "manifest": "string", "src": _call(fn, [va, vb], r)}, exp=c["exp"])]
    if fn == "eqic":
        vb = U.value_expr(c["b"], r)
        src = f"std.manifestJsonMinified({_call(fn, [va, vb], r)})"
        return [dict(base, case={"k": "eval", "manifest": "string", "src": src}, exp=c["exp"])]
    if fn == "empty":
        src = f"std.manifestJsonMinified({_call(fn, [va], r)})"
        return [dict(base, case={"k": "eval", "manifest": "string", "src": src}, exp=c["exp"])]
    if fn == "kva":
        call = _call(fn, [va], r)
        out = [dict(base, case={"k": "eval", "manifest": "string", "src": f"std.manifestJsonMinified({call})"},
                    exp=c["exp"])]
        if c["shape"] is not None:
            # keys, field names and visibility of every element, without forcing a value
            src = f"std.manifestJsonMinified([[x.key, std.objectFieldsAll(x), std.objectFields(x)] for x in {call}])"
            out.append(dict(base, case={"k": "eval", "manifest": "string", "src": src},
                            exp={"r": "text", "parts": [ord(ch) for ch in c["shape"]]}, part="shape"))
        return out
    if fn == "ys":
        iaio, cde, qk = c["st"]
        x = r.random()
        if iaio is False and cde is True and qk is True and x < 0.5:
            src = f"std.manifestYamlStream({va})"
        elif x < 0.2:
            src = (f"std.manifestYamlStream({va}, quote_keys={jb(qk)}, c_document_end={jb(cde)}, "
                   f"indent_array_in_object={jb(iaio)})")
        else:
            src = f"std.manifestYamlStream({va}, {jb(iaio)}, {jb(cde)}, {jb(qk)})"
        job = dict(base, case={"k": "eval", "manifest": "string", "src": src}, exp=c["exp"])
        if c["exp"]["r"] == "text":
            # the documents: std.manifestYamlDoc of every item with the same settings (given, not specified here)
            job["docs_case"] = {"k": "eval", "manifest": "multi",
                                "src": f"[std.manifestYamlDoc(x, {jb(iaio)}, {jb(qk)}) for x in {va}]"}
            items = c["a"]["a"]
            if items and not any(U.has_string_ending_in_newline(v) for v in items):
                job["dec"] = [U.pyvalue(v) for v in items]
        return [job]
    raise ValueError(fn)


def expected_text(exp, docs=None):
    out = []
    for p in exp["parts"]:
        out.append(chr(p) if p >= 0 else docs[-p - 1])
    return "".join(out)


def ini_shape(v):
    if v["t"] == "obj" and any(render.cps_to_str(f["k"]) == "main" and f["h"] for f in v["f"]):
        return "hidden-main"
    return None


# ---------------------------------------------------------------------------
# judgement

def judge(chk, job, res, docs_res, st):
    """Compares one executed job with the specification.  st: per-function counters."""
    case, exp, fn, kind = job["case"], job["exp"], job["fn"], job["kind"]
    payload = dict(case, fn=fn, enc2={"kind": kind, "expect": exp["r"], "parts": exp.get("parts")})
    sig0 = {"kind": kind, "fn": fn}
    if kind == "ini" and ini_shape(job["c"]["a"]):
        sig0["shape"] = ini_shape(job["c"]["a"])
    if job.get("part"):
        sig0["part"] = job["part"]
    if vlib.is_crash(res):
        chk.disagree(dict(sig0, **{"class": "crash"}), f"`{case['src'][:300]}` crashed: {vlib.crash_desc(res)}", payload)
        return "crash"
    if exp["r"] == "outside":
        chk.outside += 1
        st["outside"] += 1
        return "outside"
    if exp["r"] == "error":
        st["error"] += 1
        if "err" in res:
            return "agree-error"
        chk.disagree(dict(sig0, **{"class": "no-error"}),
                     f"`{case['src'][:300]}` produces {str(res.get('ok'))[:160]!r}; by upstream's definition of {fn} "
                     f"this input is an error (a wrong shape must not give a document)", payload)
        return "no-error"
    st["ok"] += 1
    docs = None
    if "docs_case" in job:
        payload["enc2"]["docs_src"] = job["docs_case"]["src"]
        try:
            docs = json.loads(docs_res["ok"])
            assert isinstance(docs, list) and all(isinstance(d, str) for d in docs)
        except Exception:
            chk.disagree(dict(sig0, **{"class": "doc-error"}),
                         f"`{job['docs_case']['src'][:300]}` does not give the documents of the stream: "
                         f"{str(docs_res)[:200]}", payload)
            return "doc-error"
    want = expected_text(exp, docs)
    payload["expected"] = want
    if "err" in res:
        chk.disagree(dict(sig0, **{"class": "error"}),
                     f"`{case['src'][:300]}` fails ({res['err'].get('kind')}: {str(res['err'].get('msg'))[:120]}); "
                     f"the specification gives {want[:120]!r}", payload)
        return "error"
    got = res["ok"]
    if not isinstance(got, str):
        chk.disagree(dict(sig0, **{"class": "not-a-string"}), f"`{case['src'][:300]}` does not return a string", payload)
        return "not-a-string"
    out = "agree"
    if got != want:
        i, e, g = U.first_diff(want, got)
        chk.disagree(dict(sig0, **{"class": "text-mismatch"}),
                     f"`{case['src'][:300]}` produces {got[:160]!r}; the specification (upstream's definition of {fn}) "
                     f"says {want[:160]!r} (first difference at offset {i}: expected {e}, got {g})", payload)
        out = "text-mismatch"
    # the reading law through the target language's own parser
    dec = job.get("dec")
    if dec is not None:
        reader, wanted = {"ini": (decode_ini, lambda: ini_expected(dec)),
                          "xml": (decode_xml, lambda: dec),
                          "ys": (U.decode_yaml_all, lambda: dec)}[kind]
        wanted = wanted()
        try:
            found = reader(got)
            good = U.same(wanted, found) if kind == "ys" else found == wanted
            why = None if good else f"reads it as {found!r:.300} instead of {wanted!r:.300}"
            cls = "wrong-value"
        except Exception as ex:
            good, why, cls = False, f"rejects it: {str(ex)[:200]!r}", "undecodable"
        if good:
            st["decoded"] += 1
        elif got == want and kind != "ys":
            # (for a YAML stream the expected text is assembled from the implementation's own documents:
            #  a stream that does not read back as the items is a fault of those documents, reported below)
            raise vlib.ToolError(f"Encode2: the specification's own text {want!r} for `{case['src'][:200]}` is inside "
                                 f"the decided domain but the {kind} reader {why}")
        else:
            chk.disagree(dict(sig0, **{"class": cls}),
                         f"`{case['src'][:300]}` produces {got[:160]!r}; the {kind} reader {why}",
                         dict(payload, document=got))
            out = cls
    return out


# ---------------------------------------------------------------------------

def _cfg(tier):
    return "MC_Encode2_quick.cfg" if tier == "quick" else "MC_Encode2_thorough.cfg"


class Started:
    """TLC on MC_Encode2 running in a background thread (its wall time overlaps with the harness runs of
    the first part of C05; it uses TLC_WORKERS workers)."""

    def __init__(self, tier):
        import threading
        self.res = None
        self.exc = None

        def work():
            try:
                self.res = run_tlc("MC_Encode2", _cfg(tier), "c05_enc2_" + tier, workers=TLC_WORKERS,
                                   coverage=False, timeout=900)
            except BaseException as e:  # re-raised by result()
                self.exc = e
        self.thread = threading.Thread(target=work, daemon=True)
        self.thread.start()

    def result(self):
        self.thread.join()
        if self.exc is not None:
            raise self.exc
        return self.res


def start(tier):
    return Started(tier)


def extra_manifesters(chk, tier, seed, started=None):
    """Runs the Encode2 part; adds its counts, TLC run, samples and disagreements to chk.
    started: the value of start(tier) when TLC was launched earlier."""
    import time
    t0 = time.time()
    cfg = _cfg(tier)
    res = (started or Started(tier)).result()
    tlc_must_pass(res, "Encode2 laws / emission")
    chk.add_tlc(res, "Encode2: INI / XML reading laws, stream splitting, deepJoin / lines / equalsIgnoreCase / "
                     "resolvePath laws + case emission")
    cases = load_cases(res)
    r = vlib.rng(seed, "c05-enc2")
    jobs = []
    for c in cases:
        seen = set()
        for _ in range(1 if tier == "quick" else 3):
            for j in jobs_of(c, r):
                k = (j["case"]["src"], j.get("part"))
                if k not in seen:
                    seen.add(k)
                    jobs.append(j)
    flat = []
    for j in jobs:
        flat.append(j["case"])
        if "docs_case" in j:
            flat.append(j["docs_case"])
    results = run_cases(flat, "c05_enc2", timeout_ms=10000)
    stats = {FN[k]: {"tlc_cases": 0, "executed": 0, "ok": 0, "error": 0, "outside": 0, "decoded": 0}
             for k in FN}
    for c in cases:
        stats[FN[c["fn"]]]["tlc_cases"] += 1
    classes = {}
    before = len(chk.violations)
    i = 0
    sampled = set()
    for j in jobs:
        res_j = results[i]
        i += 1
        docs_res = None
        if "docs_case" in j:
            docs_res = results[i]
            i += 1
        st = stats[j["fn"]]
        st["executed"] += 1
        chk.count(key=j["case"]["src"] + "\x00" + j["case"]["manifest"], nontrivial=True)
        out = judge(chk, j, res_j, docs_res, st)
        classes[(j["kind"], out)] = classes.get((j["kind"], out), 0) + 1
        if j["kind"] in ("ini", "xml", "ys") and out == "agree" and j["kind"] not in sampled and j.get("dec"):
            sampled.add(j["kind"])
            chk.sample({"src": j["case"]["src"][:300], "document": str(res_j.get("ok"))[:300]}, limit=12)
    chk.traces_validated += len(flat)
    chk.assumptions += [
        "Encode2: the oracle for std.manifestIni / manifestXmlJsonml / manifestYamlStream / deepJoin / lines / "
        "equalsIgnoreCase / resolvePath / isEmpty / objectKeysValuesAll is upstream std.jsonnet's definition (quoted in "
        "the header of spec/Encode2.tla); upstream escapes nothing in manifestXmlJsonml and manifestIni",
        "Encode2: INI documents are read by python3 configparser.RawConfigParser(delimiters=('=',), comment_prefixes="
        "('#', ';'), no inline comments, no interpolation, optionxform=str, strict=False with a list-extending dict so "
        "that repeated keys are kept) after a reserved header for the main section; XML documents by "
        "xml.etree.ElementTree (expat); both only inside IniDomain / XmlDomain of spec/Encode2.tla",
        "Encode2: the text of every YAML document of a stream is taken from the implementation's own "
        "std.manifestYamlDoc(item, indent_array_in_object, quote_keys) (decided by the first part of C05); only the "
        "stream framing is specified",
    ]
    sigs = {}
    for sig, what, _ in chk.violations[before:]:
        k = json.dumps(sig, sort_keys=True)
        sigs.setdefault(k, [0, what[:400]])
        sigs[k][0] += 1
    chk.extra["extra_manifesters"] = {
        "spec": "spec/Encode2.tla, spec/MC_Encode2.tla (" + cfg + ")",
        "per_function": stats,
        "columns": "tlc_cases = inputs enumerated by TLC; executed = Jsonnet programs run (spellings); ok / error / "
                   "outside = expected outcome of the executed programs; decoded = documents inside the decided domain "
                   "of the reading law that the target parser (configparser / ElementTree / PyYAML) read back as the "
                   "specification says",
        "outcome_classes": {f"{k[0]}:{k[1]}": n for k, n in sorted(classes.items())},
        "disagreement_signatures": [{"sig": json.loads(k), "count": n, "example": w} for k, (n, w) in sorted(sigs.items())],
        "outside": "XML: the tag is an array (upstream deep-joins it into the text; the implementation rejects it). "
                   "Reading laws are decided only inside the domains stated in spec/Encode2.tla (IniDomain, XmlDomain); "
                   "the YAML stream is read back only when it has at least one document and no string ends in a newline.",
        "wall_s": round(time.time() - t0, 2),
        "tlc_wall_s": round(res.wall, 2),
    }
    return stats


def replay(case):
    """Replays one recorded disagreement of this part; returns the process exit status."""
    vlib.build_harness()
    hc = {k: case[k] for k in ("k", "src", "manifest")}
    res = run_cases([hc], "c05_replay")[0]
    out = {"src": hc["src"], "fn": case.get("fn"), "expect": case["enc2"]["expect"],
           "result": {k: res[k] for k in res if k in ("ok", "err", "panic", "crash", "timeout")}}
    if case["enc2"]["expect"] == "error":
        agrees = "err" in res and not vlib.is_crash(res)
    else:
        want = case.get("expected")
        if "docs_src" in case["enc2"]:
            d = run_cases([{"k": "eval", "manifest": "multi", "src": case["enc2"]["docs_src"]}], "c05_replay")[0]
            docs = json.loads(d["ok"]) if "ok" in d else None
            out["documents"] = docs
            if docs is not None:
                want = expected_text(case["enc2"], docs)
        out["expected"] = want
        agrees = res.get("ok") == want
    out["agrees"] = agrees
    print(json.dumps(out, indent=1, ensure_ascii=True))
    return 0 if agrees else 1
