"""Helpers of the C14 check (lexing tiles the input and decodes literals exactly).

 * comparison of a harness `lex` result with a specification case (spec/Lex.tla)
 * the tiling / no-whitespace acceptance condition in Python (same condition as
   spec/Trace_Lex.tla) and the conversion of a result into trace events
 * seeded generators of arbitrary inputs: random bytes, lexical soup, the
   repository's ui-tests corpus with truncations and mutations
"""
import glob
import os

TRIVIA = ("Whitespace", "Comment")

# error kinds of the implementation per error class of the specification
ERR_CLASS = {
    "char": {"InvalidChar", "InvalidUtf8"},
    "comment": {"UnfinishedMultilineComment"},
    "number": {"LeadingZeroInNumber", "MissingFracDigits", "MissingExpDigits",
               "MissingDigitAfterUnderscore", "ExpOverflow"},
    "string": {"InvalidEscapeInString", "IncompleteUnicodeEscape", "InvalidUtf16EscapeSequence",
               "UnfinishedString"},
    "textblock": {"UnfinishedString", "MissingLineBreakAfterTextBlockStart",
                  "MissingWhitespaceTextBlockStart", "InvalidTextBlockTermination"},
}


def lex_case(bs):
    return {"k": "lex", "hex": bytes(bs).hex(), "compact": True}


def norm_num(digits, exp):
    """(digits, exp) -> canonical (int mantissa without trailing zeros, exp): the value m * 10^exp."""
    if not digits or not digits.isdigit():
        return ("bad", digits, exp)
    m = int(digits)
    if m == 0:
        return (0, 0)
    while m % 10 == 0:
        m //= 10
        exp += 1
    return (m, exp)


def show(bs):
    return repr(bytes(bs))


# ---------------------------------------------------------------------------
# the trace property (same condition as spec/Trace_Lex.tla)

def tiling_violation(r):
    """None if the harness result satisfies the tiling / no-whitespace condition,
    else a short description."""
    n = r["len"]
    a, w = r["all"], r["nows"]
    if "error" in a:
        e = a["error"]
        if e.get("ctx") is False:
            return "error span in a foreign span context"
        if not (0 <= e["start"] <= e["end"] <= n):
            return f"error span [{e['start']},{e['end']}) outside 0..{n}"
        if w != a:
            return f"lex_to_eof(false) gives {str(w)[:120]} but lex_to_eof(true) the error {e}"
        return None
    toks = a["tokens"]
    cur = 0
    if not toks:
        return "no tokens at all (not even end-of-file)"
    for t in toks[:-1]:
        if isinstance(t, dict):
            return "token span in a foreign span context"
        if t[0] == "EndOfFile":
            return f"end-of-file token before the end of the stream at {t[1]}"
        if t[1] != cur:
            return f"token {t[0]} starts at {t[1]}, cursor is at {cur}"
        if t[2] <= t[1]:
            return f"empty or negative token {t[0]} [{t[1]},{t[2]})"
        cur = t[2]
    t = toks[-1]
    if isinstance(t, dict):
        return "token span in a foreign span context"
    if t[0] != "EndOfFile":
        return f"last token is {t[0]}, not end-of-file"
    if not (t[1] == cur and t[2] == cur and cur == n):
        return f"end-of-file token [{t[1]},{t[2]}) with cursor {cur} and input length {n}"
    if "error" in w:
        return f"lex_to_eof(false) fails with {w['error']} but lex_to_eof(true) succeeds"
    if w["tokens"] != [t for t in toks if t[0] not in TRIVIA]:
        return "lex_to_eof(false) is not lex_to_eof(true) minus whitespace/comments"
    return None


def trace_events(r):
    """The NDJSON events of one harness result for spec/Trace_Lex.tla."""
    ev = [{"k": "reset", "len": r["len"]}]
    a, w = r["all"], r["nows"]
    if "error" in a:
        e = a["error"]
        ev.append({"k": "err", "s": e["start"], "e": e["end"], "c": e["kind"]})
    else:
        for t in a["tokens"]:
            if isinstance(t, dict):
                t = [t["kind"], t["start"], t["end"]]
            if t[0] == "EndOfFile":
                ev.append({"k": "eof", "s": t[1], "e": t[2]})
            else:
                ev.append({"k": "tok", "s": t[1], "e": t[2], "tr": t[0] in TRIVIA})
    if "error" in w:
        e = w["error"]
        ev.append({"k": "nwerr", "s": e["start"], "e": e["end"], "c": e["kind"]})
    else:
        for t in w["tokens"]:
            if isinstance(t, dict):
                t = [t["kind"], t["start"], t["end"]]
            ev.append({"k": "nw", "s": t[1], "e": t[2]})
    ev.append({"k": "end"})
    return ev


# ---------------------------------------------------------------------------
# comparison with a specification case

def expected_tokens(case):
    """Specification tokens [[kind, s, e, val, exp], ...] -> comparable tuples."""
    out = []
    for kind, s, e, val, exp in case["t"]:
        if kind == "Number":
            v = norm_num(bytes(val).decode("ascii"), exp)
        elif kind in ("Ident", "OtherOp"):
            v = bytes(val).decode("ascii")
        elif kind in ("String", "TextBlock"):
            v = list(val)
        else:
            v = None
        out.append((kind, s, e, v))
    return out


def observed_tokens(tokens):
    out = []
    for t in tokens:
        if isinstance(t, dict):
            out.append((t["kind"], t["start"], t["end"], "foreign-context"))
            continue
        kind = t[0]
        v = t[3] if len(t) > 3 else None
        if kind == "Number":
            v = norm_num(v["digits"], v["exp"])
        out.append((kind, t[1], t[2], v))
    return out


def shape(bs):
    """The lexeme with digits -> d and letters other than e/E/u -> a (for signatures)."""
    out = []
    for ch in bytes(bs)[:12]:
        c = chr(ch)
        if c.isdigit():
            c = "d"
        elif c.isalpha() and c not in "eEu":
            c = "a"
        elif ch >= 128 or ch < 32:
            c = "?"
        if not (out and out[-1] == c and c in "da?"):
            out.append(c)
    return "".join(out)


def accept_detail(lexeme):
    """Signature detail for a lexeme the lexer accepted and the grammar does not form: the places where
    a '_' touches a non-digit, else the beginning of its shape."""
    t = bytes(lexeme).decode("latin-1")
    bad = sorted({t[i:i + 2] for i in range(len(t) - 1)
                  if (t[i] == "_" and not t[i + 1].isdigit()) or (t[i + 1] == "_" and not t[i].isdigit())})
    return ",".join(bad) if bad else shape(lexeme)[:6]


def compare(case, r):
    """case: specification case {b, st, cls, at, t}; r: harness result.
    Returns None (agreement) or (class, tokenkind_or_errorclass, text, detail)."""
    bs = case["b"]
    st = case["st"]
    a = r["all"]
    if st == "ok":
        exp = expected_tokens(case)
        if "error" in a:
            e = a["error"]
            # which expected token contains the error position
            at = next((k for (k, s, e2, _) in exp if s <= e["start"] < e2), "EndOfFile")
            return ("rejects-valid", at,
                    f"{show(bs)}: the grammar gives {len(exp)} tokens, lexer fails with {e}", e["kind"])
        obs = observed_tokens(a["tokens"])
        if obs != exp:
            for k in range(max(len(obs), len(exp))):
                o = obs[k] if k < len(obs) else None
                x = exp[k] if k < len(exp) else None
                if o != x:
                    if o is None or x is None or o[0] != x[0]:
                        cls = "wrong-kind"
                    elif o[1:3] != x[1:3]:
                        cls = "wrong-span"
                    else:
                        cls = "wrong-value"
                    detail = ""
                    if cls == "wrong-value" and isinstance(x[3], list) and isinstance(o[3], list):
                        j = next((j for j in range(min(len(x[3]), len(o[3]))) if x[3][j] != o[3][j]), None)
                        if j is None:
                            detail = "length"
                        elif x[3][j] == 0xFFFD:
                            detail = "replacement-character-expected"
                        else:
                            detail = "other-character"
                    return (cls, (x or o)[0],
                            f"{show(bs)}: token {k} is {o}, the grammar says {x}", detail)
        w = r["nows"]
        if "error" in w or observed_tokens(w["tokens"]) != [t for t in exp if t[0] not in TRIVIA]:
            return ("nows-mismatch", "stream",
                    f"{show(bs)}: lex_to_eof(false) is not the expected stream without whitespace/comments", "")
        return None
    if st == "err":
        cls = case["cls"]
        if "error" not in a:
            obs = observed_tokens(a["tokens"])
            at = next((t for t in obs if t[1] <= case["at"] < t[2]), obs[-1])
            return ("accepts-invalid", cls,
                    f"{show(bs)}: no token of the grammar starts at offset {case['at']} ({cls}), "
                    f"lexer yields {at} there ({len(obs)} tokens)", accept_detail(bs[at[1]:at[2]]))
        e = a["error"]
        if e["kind"] not in ERR_CLASS[cls]:
            return ("error-class", cls,
                    f"{show(bs)}: failing token is a {cls} at offset {case['at']}, lexer reports {e}", e["kind"])
        if e["start"] < case["at"]:
            return ("error-location", cls,
                    f"{show(bs)}: the tokens before offset {case['at']} are valid, error located at {e}", e["kind"])
        if r["nows"] != a:
            return ("nows-mismatch", "error", f"{show(bs)}: the two streams fail differently", "")
        return None
    return None   # outside


# ---------------------------------------------------------------------------
# arbitrary inputs

SOUP = [b"|||", b"|||-", b"\n", b"\r\n", b" ", b"  ", b"\t", b"\"", b"'", b"@\"", b"@'", b"\\", b"\\u", b"\\ud83d",
        b"\\ude00", b"\\n", b"/*", b"*/", b"//", b"#", b"/", b"*", b"|", b"||", b"$", b":", b"::", b"+", b"-", b"!",
        b"~", b"<", b"=", b">", b"&", b"^", b"%", b"0", b"1", b"9", b".", b"e", b"E", b"_", b"a", b"if", b"local",
        b"x1", b"{", b"}", b"[", b"]", b",", b"(", b")", b";", b"\xc3\xa9", b"\xf0\x9f\x98\x80", b"\xc0", b"\x80",
        b"\xe2\x82", b"\xed\xa0\x80", b"\xf4\x90", b"\xff", b"\x00", b"`", b"?", b"@", b"\x7f"]
LEXBYTES = b"|\n\r \t\"'@\\u/*#$:+-!~<=>&^%019.eE_ax{}[],();"


def gen_random(rng, n):
    """n seeded byte strings: uniform bytes, lexical-alphabet bytes, fragment soup."""
    out = []
    for k in range(n):
        m = k % 3
        if m == 0:
            ln = rng.randrange(0, 13)
            out.append(bytes(rng.randrange(256) for _ in range(ln)))
        elif m == 1:
            ln = rng.randrange(0, 25)
            out.append(bytes(rng.choice(LEXBYTES) if rng.random() < 0.93 else rng.randrange(256)
                             for _ in range(ln)))
        else:
            ln = rng.randrange(1, 13)
            out.append(b"".join(rng.choice(SOUP) for _ in range(ln)))
    return out


def corpus():
    files = sorted(glob.glob("/repo/ui-tests/**/*.jsonnet", recursive=True))
    out = []
    for f in files:
        with open(f, "rb") as fh:
            out.append((os.path.relpath(f, "/repo"), fh.read()))
    return out


def mutate(rng, data):
    """One seeded mutation of a window of a corpus file."""
    if len(data) > 160:
        lo = rng.randrange(0, len(data) - 160)
        data = data[lo:lo + rng.randrange(20, 160)]
    data = bytearray(data)
    for _ in range(rng.randrange(1, 4)):
        op = rng.randrange(5)
        pos = rng.randrange(0, len(data) + 1)
        if op == 0 and data:
            data[pos % len(data)] = rng.randrange(256)
        elif op == 1:
            data[pos:pos] = rng.choice(SOUP)
        elif op == 2 and data:
            del data[pos % len(data)]
        elif op == 3 and data:
            p2 = rng.randrange(0, len(data))
            a, b = min(pos, p2), max(pos, p2)
            del data[a:b]
        else:
            data[pos:pos] = bytes([rng.choice(LEXBYTES)])
    return bytes(data)
