#!/usr/bin/env python3
"""Regenerates /verif/MANIFEST.json from the table below (single source of truth)."""
import json
import os

ROOT = os.path.dirname(os.path.dirname(os.path.abspath(__file__)))

ALL = ["C%02d" % i for i in range(1, 21)]

# property -> (category, text, design_ref, level_note, technique, engine)
CLAIMED = {
    "C03": (
        "model_checking",
        "spec/Heap.tla models GcContext::gc as coded (count/mark/sweep with vector reordering); TLC checks "
        "survivors = reachable-from-external-handles, no dangling handle and idempotence exhaustively for "
        "heaps of 3 (quick) / 4 (thorough) objects. Every explored transition is replayed on the real "
        "collector (state constructed, action applied, survivors compared) and simulated 24-operation "
        "behaviours over 5 objects are stepped through it with the comparison after every operation. "
        "Evaluator level: corpus and generated programs run under never/default/every-step/periodic/"
        "explicit collection schedules (hook in maybe_gc); outcomes must be identical, no handle may die, "
        "object count must return to the baseline after one collection.",
        "DESIGN.md §5 C03",
        "Trusts the scripted heap driver in rsjsonnet-lang/src/verif.rs (cfg rsjsonnet_verif) to hold exactly "
        "the handles the script names; evaluator-level exactness is observed through object counts only; "
        "heaps larger than the exhaustive bound are sampled by simulation.",
        "TLA+ model of the collector checked by TLC + per-transition and behaviour replay into the real "
        "GcContext; schedule sweep with outcome/count comparison",
        "tlc+vharness",
    ),
}

NOT_YET = "check not built yet in this round; see DESIGN.md §5 for the planned decision procedure"


def main():
    checks = []
    for pid in ALL:
        if pid not in CLAIMED:
            continue
        cat, text, ref, note, tech, engine = CLAIMED[pid]
        checks.append({
            "property_id": pid,
            "quick_cmd": f"./check {pid} --tier quick",
            "thorough_cmd": f"./check {pid} --tier thorough",
            "evidence_file": f"/verif/evidence/{pid}.json",
            "replay_cmd_template": f"./check {pid} --replay {{path}}",
            "engine": engine,
            "level_claimed": {"category": cat, "text": text, "design_ref": ref},
            "level_note": note,
            "technique": tech,
        })
    na_path = os.path.join(ROOT, "lib", "not_applicable.json")
    na_reasons = {}
    if os.path.exists(na_path):
        with open(na_path) as f:
            na_reasons = json.load(f)
    na = [{"property_id": p, "reason": na_reasons.get(p, NOT_YET)} for p in ALL if p not in CLAIMED]
    hooks_commits = []
    hp = os.path.join(ROOT, "lib", "hook_commits.txt")
    if os.path.exists(hp):
        hooks_commits = [l.split()[0] for l in open(hp) if l.strip()]
    m = {
        "version": 1,
        "setup_cmd": "./check setup",
        "hooks": {
            "guard": "rsjsonnet_verif",
            "enable": "harness/.cargo/config.toml sets rustflags = [\"--cfg\", \"rsjsonnet_verif\"]; the "
                      "harness crate has path dependencies on /repo/rsjsonnet-lang and /repo/rsjsonnet-front, so "
                      "`cargo build --release --offline` in /verif/harness rebuilds /repo's current tree with hooks on. "
                      "The CLI used by process-level checks is built without the flag.",
            "baseline_off_cmd": "cd /repo && cargo test --workspace --no-fail-fast --offline",
            "source_commits": hooks_commits,
            "add_only": True,
        },
        "engines": [
            {"name": "tlc", "path": "/verif/spec", "serves_properties": sorted(CLAIMED),
             "kind_free_text": "TLA+ specifications (reference-level operators and operational state machines) "
                               "checked / enumerated / simulated by TLC; trace specs validate recorded executions"},
            {"name": "vharness", "path": "/verif/harness", "serves_properties": sorted(CLAIMED),
             "kind_free_text": "Rust executor with path dependencies on /repo: replays specification-generated "
                               "cases into the real crates and records hook events, with panic/abort/timeout isolation"},
        ],
        "checks": checks,
        "not_applicable": na,
        "notes": "Driver: ./check <Cxx> --tier quick|thorough. Exit 0 held / 1 VIOLATION / 2 tool error. "
                 "Known findings: /verif/known_findings.json.",
    }
    with open(os.path.join(ROOT, "MANIFEST.json"), "w") as f:
        json.dump(m, f, indent=1)
    print("MANIFEST.json written:", len(checks), "checks,", len(na), "not applicable")


if __name__ == "__main__":
    main()
