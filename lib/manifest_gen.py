#!/usr/bin/env python3
"""Regenerates /verif/MANIFEST.json from the table below (single source of truth)."""
import json
import os

ROOT = os.path.dirname(os.path.dirname(os.path.abspath(__file__)))

ALL = ["C%02d" % i for i in range(1, 21)]

# property -> (category, text, design_ref, level_note, technique, engine)
def E(cat, text, ref, note, tech, engine="tlc+vharness"):
    return (cat, text, ref, note, tech, engine)


CLAIMED = {
    "C01": E("model_checking",
        "spec/Pipeline.tla is the outcome protocol of one request (Lex -> Parse -> Analyze -> Eval -> Manifest, exactly one "
        "of value / structured error of the failing stage; no action for a panic, abort, internal assertion or timeout). "
        "spec/MC_Pipeline.tla generates the inputs: all byte strings of length <= 3 (thorough 4) over 42 byte-class "
        "representatives, every one of the 159 std functions (table frozen in the spec and cross-checked against "
        "std.objectFieldsAll(std)) applied to every tuple of boundary values, and simulated mutation sequences of the "
        "repository's own programs. Every input runs in an isolated worker (panic = data, abort/timeout attributed to the "
        "case); TLC validates the recorded outcomes against Trace_Pipeline; a sample goes through the real binary (exit "
        "status in {0,1,2}, no signal, no `panicked at`)."
        " Further universes: ill-formed UTF-8 inside string bodies, std.format directive grid, deep nesting shapes, the static-analysis universe of MC_Static (ill-scoped programs must be diagnosed); every other std result is also ordered, sorted and printed.",
        "DESIGN.md §5 C01",
        "Totality only (the spec does not predict which outcome); time-outs and allocator failure under the worker's "
        "memory limit are resource exhaustion, counted outside the domain; deep-nesting native stack overflow in the "
        "parser is a recorded known finding when it is re-found.",
        "TLC-generated input universes + isolated replay + trace validation of the outcome protocol"),
    "C02": E("model_checking",
        "spec/Sem.tla is a big-step call-by-name reference semantics of the core language (locals, functions with "
        "default/named arguments, objects as layer sequences with self/super/$, visibility, +:, object locals and asserts, "
        "comprehensions, slices, error/assert, string coercion) written from the language definition. TLC enumerates every "
        "closed program of seven grammar slices incl. ~60 library members (thorough: ~200k programs; quick: seeded subsets), evaluates it with the "
        "reference semantics and prints source + expected outcome; the implementation must produce the same JSON, and the "
        "same kind and message for error/assert.",
        "DESIGN.md §5 C02",
        "Integers |n| <= 10^6 only; fuel-bounded (fuel exhaustion accepts any non-crash outcome); where operand "
        "evaluation order decides which of two errors is reported only failure is compared; tailstrict with failing unused "
        "arguments is outside the domain.",
        "TLA+ reference interpreter evaluated by TLC over enumerated ASTs + replay into the real evaluator"),
    "C03": E("model_checking",
        "spec/Heap.tla models GcContext::gc as coded (count/mark/sweep with vector reordering); TLC checks "
        "survivors = reachable-from-external-handles, no dangling handle and idempotence exhaustively for "
        "heaps of 3 (quick) / 4 (thorough) objects. Every explored transition is replayed on the real "
        "collector (state constructed, action applied, survivors compared) and simulated 24-operation "
        "behaviours over 5 objects are stepped through it with the comparison after every operation. "
        "Evaluator level: corpus programs run under never/default/every-step/periodic/"
        "explicit collection schedules (hook in maybe_gc); outcomes must be identical, no handle may die, "
        "object count must return to the baseline after one collection."
        " Every other run also collects while only the request's value is held (before it is manifested); deep live heaps are also run through the binary.",
        "DESIGN.md §5 C03",
        "Trusts the scripted heap driver in rsjsonnet-lang/src/verif.rs (cfg rsjsonnet_verif) to hold exactly "
        "the handles the script names; evaluator-level exactness is observed through object counts only; "
        "heaps larger than the exhaustive bound are sampled by simulation.",
        "TLA+ model of the collector checked by TLC + per-transition and behaviour replay into the real "
        "GcContext; schedule sweep with outcome/count comparison"),
    "C04": E("model_checking",
        "(a) spec/Machine.tla: thunk state machine Pending->InProgress->Done with EvalOnce and DemandedOnly model-checked "
        "over all abstract thunk graphs; recorded thunk/frames events of real runs are validated by TLC against "
        "spec/Trace_Machine.tla. (b) spec/Rewrite.tla: generic AST traversal; for every program of the C02 slices and every "
        "site, the rewrites of the property (name with a local, identity function, one-element array, one-field object, "
        "dead local / parameter / hidden field) are checked ON THE SPEC to preserve Sem's outcome and then replayed: value, "
        "error message and std.trace output must be unchanged; probes (site := error) must have the outcome Sem assigns. "
        "(c) std.trace at every once-instantiated binding site: demanded sites (replacing them by an error changes Sem's "
        "outcome) print exactly once, the others never.",
        "DESIGN.md §5 C04",
        "Demand is defined through the call-by-name reference semantics; sites under functions/comprehensions/object "
        "extension are excluded from trace counting (instantiated more than once legitimately); order of trace lines is not compared.",
        "TLC-checked rewrite laws on the reference semantics + replay; trace validation of thunk events against a TLA+ state machine"),
    "C05": E("model_checking",
        "spec/Encode.tla: JsonEscape / JsonEncode (layout of manifestJsonEx, default output, toString, minified) and an "
        "RFC 8259 decoder; TLC checks Decode(Encode(v, settings)) = v, visible-only, sorted keys over a universe with every "
        "code point 0x00-0xA0 (+ boundary code points) as strings and keys, nesting <= 2/3, hidden fields, dyadic numbers "
        "incl. -0, x 20 layouts, and emits the expected text: compared exactly with the implementation (library and CLI "
        "default/-y/-m). Python / TOML / YAML documents are decoded by the target language's own parser (ast.literal_eval, "
        "tomllib, PyYAML) and compared with the value."
        " spec/Encode2.tla adds std.manifestIni / manifestXmlJsonml / manifestYamlStream and small text functions as upstream defines them (exact text + reading laws inside stated domains); std.parseYaml must read std.manifestYamlDoc's documents back.",
        "DESIGN.md §5 C05",
        "Doubles outside the exact dyadic domain are checked by self round trip (implementation's parseJson, Python float) "
        "and the RFC 8259 number grammar, not by TLC; PyYAML is YAML 1.1 (documented exclusions).",
        "TLA+ encoder/decoder with round-trip theorems checked by TLC + exact-text replay; target-language parsers as decoders"),
    "C06": E("model_checking",
        "spec/Num.tla reasons about IEEE double arithmetic symbolically on a grid of boundary doubles (+-0, +-2^e, "
        "+-(2^53-1)*2^e, MAX, subnormals): exact result class (value / finite / overflow / NaN / error) of every operator "
        "and numeric builtin, literal shapes and radix parsers; rule: overflow or NaN must be an error. TLC enumerates "
        "operators x grid^arity and arrays; the implementation must agree, and the evaluator hook reports any non-finite "
        "number that reaches the value stack.",
        "DESIGN.md §5 C06",
        "Correct rounding of arbitrary literals and shortest printing are checked against the host's IEEE arithmetic "
        "(Python float/repr), not by TLC (32-bit integers, no floats).",
        "symbolic IEEE class arithmetic in TLA+ enumerated by TLC + replay; hook event for non-finite values"),
    "C07": E("model_checking",
        "spec/MC_Inherit.tla enumerates triples, 4-chains (every bracketing), identities and objectRemoveKey applications "
        "over pools of object expressions (self, super.f, super[e], e in super, +:, visibilities, locals, asserts, computed "
        "and null names, comprehension-built objects, results of objectRemoveKey/mergePatch/prune/mapWithKey). TLC checks on "
        "Sem that all bracketings agree, that manifestation/length/in/objectHas(All)/objectFields(All) agree on the field "
        "set, and the objectRemoveKey contract; every bracketing is replayed and compared with the specification and with "
        "the other bracketings byte for byte.",
        "DESIGN.md §5 C07",
        "objectRemoveKey is evaluated under two readings (delete from every layer / snapshot); cases where they differ are "
        "outside the domain.",
        "TLC-checked algebra on the reference object model + replay of every bracketing"),
    "C08": E("model_checking",
        "spec/Values.tla defines std.equals / std.__compare and the derived operators; TLC checks reflexivity, symmetry, "
        "transitivity, == iff same JSON, trichotomy, transitivity of <, derived operators and errors for unordered kinds "
        "over a 64-value universe (pairs and triples) and emits, for every ordered pair, the expected result of ten "
        "operators; all 40 960 programs are evaluated by the implementation.",
        "DESIGN.md §5 C08",
        "Finite value universe; rendering of values as Jsonnet literals in lib/render.py.",
        "TLC-checked laws on reference equality/order + exhaustive replay"),
    "C09": E("model_checking",
        "spec/Static.tla is the static judgement (set of scoping errors); spec/MC_Static.tla composes 44 one-hole contexts "
        "(every binder kind and syntactic position, dead code included) to depth 2 and fills them with 25 faulty and "
        "fault-free expressions. The implementation must reject a program at load time iff the set is non-empty, with a "
        "member of the set; programs that load are evaluated and must never crash on an unbound name.",
        "DESIGN.md §5 C09",
        "Contexts and fillers are a finite family; depth 2 is sampled in the quick tier.",
        "TLA+ static semantics enumerated by TLC + replay into load_source"),
    "C10": E("model_checking",
        "spec/Machine.tla (FramesBalanced, WithinLimit, in-progress => infinite recursion) model-checked; spec/Depth.tla "
        "states the staircase contract between depth d, limit s and outcome for 23 recursion families; the recorded outcome "
        "matrix of the implementation (3 000 / 30 000 cells, plus depths 5 000-30 000 for native-stack safety) is validated "
        "by TLC against Trace_Depth; frame events of runs under small limits are validated against Trace_Machine (counter = "
        "open frames, never negative, zero at exit, StackOverflow exactly at the first step boundary above the limit)."
        " Families include tailstrict calls in non-tail positions (every level must keep a frame) and deep live heaps through the binary.",
        "DESIGN.md §5 C10",
        "Frames-per-level is implementation defined: the shape of the matrix is constrained, not the threshold.",
        "TLA+ state machine model-checked + trace validation of recorded frame events and outcome matrices"),
    "C11": E("model_checking",
        "spec/Machine.tla HistoryIndependent model-checked over all abstract thunk graphs and request histories (the "
        "as-coded variant RestoreOnFail=FALSE yields the 2-request counterexample that was fixed). spec/Hist.tla: TLC "
        "enumerates every history of length 3 (thorough: 4, sampled) over 29 requests on 13 sources sharing an external "
        "variable and an imported file; each history runs on one long-lived Program, each request also on a fresh one; "
        "TLC validates every recorded outcome against Trace_Hist (= fresh outcome under the same limit)."
        " Histories also collect while only a request's value is held; Session-level histories (case kind sess) cover the front end's import resolution and caches.",
        "DESIGN.md §5 C11",
        "Fixed source pool; memoised results may turn a fresh StackOverflow into the value a larger limit gives.",
        "TLA+ request-layer model + TLC-enumerated histories replayed + trace validation of outcomes"),
    "C12": E("model_checking",
        "spec/Cli.tla: one run of the tool as a state machine (ParseArgs, ReadInput, Load, BindExt/Tla, Eval, Call, "
        "Manifest(mode), Write) with a separately enabled failure branch per phase and injected faults; TLC checks the "
        "contract (exit status set exactly at the end and in {0,1,2}; usage errors = 2; nothing written before the whole "
        "output is built; exit 0 => complete output = Rendered(mode, value); exit != 0 => stdout empty, no -o file, "
        "stderr non-empty), the view laws (-S, -y with an independent stream reader, -m, --no-trailing-newline) and the "
        "configuration laws (extVar exactness, lazy ext code, TLAs by name) over all 25 272 configurations, and emits "
        "every terminal behaviour; each is replayed against the real binary in a scratch directory: exit status, stdout "
        "bytes, stderr non-emptiness, created files and their bytes.",
        "DESIGN.md §5 C12",
        "Runs as root (permission faults replaced by directory/dangling-link faults); a closed stdout is the recorded "
        "known finding F8; unused ext code with a syntax error and -m files written before a failing field are left "
        "open (both outcomes allowed).",
        "TLA+ model of the CLI run model-checked by TLC + replay of every terminal behaviour against the binary", "tlc+cli"),
    "C13": E("model_checking",
        "spec/Imports.tla: one run of the tool on a directory tree as a state machine (fs with directories, files, "
        "symlinks; -J list; cache by canonical node; loads; thisFile; evaluator stack) with actions for resolution, "
        "import/importstr/importbin, cache hit, cycle and failure; TLC checks LoadOnce, CacheDomains, ErrorSite, "
        "Functional resolution, the Resolve laws (importer directory first, right-most -J wins, absolute bypass) and the "
        "lossy UTF-8 laws, over all trees of the universe (presence x -J orders x importers x spellings x kinds, "
        "aliases, cycles, binary content), and emits each terminal behaviour; every scenario is materialised and run "
        "through the real binary: exit status, manifested value (which file, thisFile, text, bytes), TRACE lines per "
        "file (= evaluations), error site."
        " Code files given with --ext-code-file / --tla-code-file are bound before the run, enter the same cache (thisFile = command-line spelling, evaluated lazily at most once) and resolve their own imports against their directory: scenario family codefile. A main program given as text (-e / standard input) has no directory: its relative imports are answered by -J alone, absolute ones as spelled, std.thisFile is <cmdline> / <stdin> (invariant NoDirSearch, family virt).",
        "DESIGN.md §5 C13",
        "Symlink loops and permission faults (runs as root) are outside the domain, as is a program given with -e / "
        "on standard input that is reached again through the file holding its text; message texts "
        "are not compared.",
        "TLA+ model of resolver/cache model-checked by TLC + replay of every scenario against the real binary", "tlc+cli"),
    "C14": E("model_checking",
        "spec/Lex.tla: a full reference lexer over bytes (operators with maximal munch and the specification's "
        "restrictions, numbers with digit separators and exponents, identifiers/keywords, strings with every escape and "
        "surrogate pairs, verbatim strings, text blocks with indentation stripping, comments), Utf8Lossy, and a "
        "generator/printer of token sequences with expected kinds, values and spans; TLC checks tiling, print/re-tokenize "
        "identity, trivia-insensitivity and the UTF-8 laws (all 1 112 064 scalar values) and emits cases: all strings "
        "<= 4/5 over the operator alphabet, <= 5/7 over the number alphabet, token items and pairs/triples with every "
        "separator kind, string/text-block fragments, UTF-8 patterns in every container; replayed through "
        "Lexer::lex_to_eof(true/false). Tiling on arbitrary bytes (random, corpus, truncations, mutations) is validated "
        "against spec/Trace_Lex.tla by TLC on a sample and by a Python evaluation of the same condition on all."
        " LawStretchR (inserting filler inside a comment / whitespace run / string only shifts spans; checked by TLC for k = 1, 2) is applied with k around 2^25 and 2^26 to the real lexer.",
        "DESIGN.md §5 C14",
        "Error kind and span end of lexical errors are not compared (class and position only); exponents longer than 6 "
        "digits and `0` followed by a digit are outside the domain.",
        "TLA+ reference lexer with TLC-checked laws + replay; trace validation of token tilings"),
    "C15": E("model_checking",
        "spec/Syntax.tla: syntax trees mirroring ast.rs, the 10-level precedence table, a printer with minimal or "
        "redundant parentheses that also computes every node's expected first/last token, NeedsSeparator, and a "
        "precedence-climbing reference parser RefParse; TLC checks RefParse(print(t)) = t for both styles, that every "
        "parenthesis of the minimal print is required, span nesting, and emits trees: all ordered pairs and triples of the "
        "19 binary operators plus `in super`, unary x binary x postfix nestings, ~70 contexts x fillers for the "
        "extends-right forms, postfix chains with the 12 slice layouts, object/comprehension shapes. Replay through "
        "Parser::parse_root_expr: same tree, same spans for both prints and with one parenthesis pair removed; "
        "single-token delete/duplicate/swap mutants must be rejected where the reference rejects, with an error that "
        "points at a token (spec/Trace_Diag.tla validated by TLC on a sample)."
        " Layouts with one huge separator give nodes of 2^25-1 .. 2^26 bytes (span id representation boundary).",
        "DESIGN.md §5 C15",
        "Accept/reject of mutated sequences is decided only over the operator-core vocabulary; nesting deeper than 3 is sampled.",
        "TLA+ grammar/precedence model with reference parser, TLC-checked print/parse laws + replay of trees and spans"),
    "C16": E("model_checking",
        "spec/Spans.tla models the span table of rsjsonnet-lang/src/span.rs with exact big naturals (pairs in base 2^20): "
        "contexts as cumulative ends, ids as the 64-bit word (inline offset+1 | len<<38, or interned index), Intern/Get; "
        "TLC checks RoundTrip (every id ever issued decodes to its triple), Canonical, TableTight over magnitudes around "
        "2^25 and 2^38 up to 2^40 and must reject three deliberately wrong variants; every script is replayed on the real "
        "SpanManager. SpansArith.tla (Apalache) checks the pack/unpack arithmetic over unbounded integers. Every span of "
        "every error and stack-trace entry of generated failing programs (ui-tests/fail, mutated programs, an error-kind x "
        "surroundings family incl. first/last byte, EOF, multi-byte, CRLF, tabs, imported files, stdlib) is validated "
        "against spec/Trace_Spans.tla (0 <= start <= end <= length of the named source). Rendering through the binary, "
        "plain and coloured, for every --max-trace value: exit 1, no panic, header, file:line:col of the primary span, "
        "shown/hidden trace notes = Crop(n, t) of the spec.",
        "DESIGN.md §5 C16",
        "Columns are compared exactly only when the line prefix is printable ASCII; the renderer panic on zero-width "
        "characters is the recorded known finding F18.",
        "TLA+ span-table model (TLC + Apalache) with replay; trace validation of error spans; render checks against the binary"),
    "C17": E("model_checking",
        "spec/SortSet.tla defines Sort (unique stable ordered permutation), Uniq, Set, set operations by key, "
        "MinArray/MaxArray declaratively; TLC checks permutation/ordered/stable/idempotence/upstream-definition laws and "
        "emits expected results for all arrays of length <= 6-8 over 3-4 keys with unique tags, all pairs of sets over 5 "
        "keys, and simulated long arrays (25..200, crossing the merge threshold) under identity/projecting/negating keyF."
        " Equal keys occur in two spellings (0 / -0, law LawAltTab) and the empty array is a key.",
        "DESIGN.md §5 C17",
        "Long arrays are sampled; error kinds/messages are not compared.",
        "TLC-checked declarative sort/set contracts + exact replay"),
    "C18": E("model_checking",
        "spec/Strings.tla: one reference operator per string builtin over code point sequences with the property's "
        "identities as TLC-checked theorems (join/split, findSubstr, strip maximality, splitLimit(R), slices, %-width); "
        "all strings of length <= 3/4 over an alphabet with 1-4 byte characters and a combining mark x index/limit/pattern "
        "arguments (257k / 2.2M cases).",
        "DESIGN.md §5 C18",
        "Fractional arguments, empty separators and upstream-undocumented corners are outside the domain.",
        "TLC-checked string algebra + exhaustive replay"),
    "C19": E("model_checking",
        "spec/Fmt.tla: format-string parser, argument machines for the array / single-value / object forms and renderers "
        "for d i u o x X c s %% exactly and e E f F on exact dyadic values (exact decimal expansion on base-10^7 limbs, "
        "round-half-even), g/G as shape invariants; laws checked by TLC (field length = max(width, body), flag "
        "interactions, aliases, form agreement, argument counting, parse/print identity, digit laws). Universe: conversions "
        "x 32 flag subsets x widths x precisions x 41 values, huge widths/precisions (65535..70000) as ropes, malformed "
        "strings, argument mismatches. The spec renderers are cross-validated against Python's % operator in the check "
        "(mismatch = tool error)."
        " A negative fraction under d i u o x X (floor vs truncate undecided) must print as the decided result of its truncation or of its floor.",
        "DESIGN.md §5 C19",
        "Digits of e/f/g for non-dyadic values and magnitudes >= 2^53 are compared by shape/one-ulp only; sign of -0 and "
        "upstream-specific corners are outside the domain.",
        "TLA+ printf model with TLC-checked laws + digit-exact replay"),
    "C20": E("model_checking",
        "spec/Codec.tla: radix parsers, an RFC 8259 decoder, base64, UTF-8 encode/lossy decode, the five escapers with "
        "their inverses, and a frozen digest table, each with TLC-checked laws; all strings <= 4/5 symbols over a JSON "
        "alphabet, mutated documents, digit strings with non-digits at every position, byte-class universes; parseYaml must "
        "equal parseJson where the property claims it and be total elsewhere."
        " spec/Yaml.tla is a reference reader for a block-style subset of YAML 1.2 (mappings, sequences, one-line scalars with the core schema, comments, multi-document streams; everything doubtful is outside): documents are generated with a known value, the law Read(Print(d)) = ValueOf(d) is checked by TLC, every decided text is cross-checked against PyYAML and evaluated by std.parseYaml.",
        "DESIGN.md §5 C20",
        "Digests are decided on a 39-row known-answer table (+ hashlib sample); big numbers by class/bracket.",
        "TLA+ reference codecs with inverse laws checked by TLC + replay"),
}

NOT_YET = "check not built yet in this round; see DESIGN.md §5 for the planned decision procedure"


def main():
    checks = []
    for pid in ALL:
        if pid not in CLAIMED:
            continue
        cat, text, ref, note, tech, engine = CLAIMED[pid]
        checks.append({
            "property_id": pid,
            "quick_cmd": f"./check {pid} --tier quick",
            "thorough_cmd": f"./check {pid} --tier thorough",
            "evidence_file": f"/verif/evidence/{pid}.json",
            "replay_cmd_template": f"./check {pid} --replay {{path}}",
            "engine": engine,
            "level_claimed": {"category": cat, "text": text, "design_ref": ref},
            "level_note": note,
            "technique": tech,
        })
    na_path = os.path.join(ROOT, "lib", "not_applicable.json")
    na_reasons = {}
    if os.path.exists(na_path):
        with open(na_path) as f:
            na_reasons = json.load(f)
    na = [{"property_id": p, "reason": na_reasons.get(p, NOT_YET)} for p in ALL if p not in CLAIMED]
    hooks_commits = []
    hp = os.path.join(ROOT, "lib", "hook_commits.txt")
    if os.path.exists(hp):
        hooks_commits = [l.split()[0] for l in open(hp) if l.strip()]
    m = {
        "version": 1,
        "setup_cmd": "./check setup",
        "hooks": {
            "guard": "rsjsonnet_verif",
            "enable": "harness/.cargo/config.toml sets rustflags = [\"--cfg\", \"rsjsonnet_verif\"]; the "
                      "harness crate has path dependencies on /repo/rsjsonnet-lang and /repo/rsjsonnet-front, so "
                      "`cargo build --release --offline` in /verif/harness rebuilds /repo's current tree with hooks on. "
                      "The CLI used by process-level checks is built without the flag.",
            "baseline_off_cmd": "cd /repo && cargo test --workspace --no-fail-fast --offline",
            "source_commits": hooks_commits,
            "add_only": True,
        },
        "engines": [
            {"name": "tlc", "path": "/verif/spec", "serves_properties": sorted(CLAIMED),
             "kind_free_text": "TLA+ specifications (reference-level operators and operational state machines) "
                               "checked / enumerated / simulated by TLC; trace specs validate recorded executions"},
            {"name": "vharness", "path": "/verif/harness", "serves_properties": sorted(CLAIMED),
             "kind_free_text": "Rust executor with path dependencies on /repo: replays specification-generated "
                               "cases into the real crates and records hook events, with panic/abort/timeout isolation"},
        ],
        "checks": checks,
        "not_applicable": na,
        "notes": "Driver: ./check <Cxx> --tier quick|thorough. Exit 0 held / 1 VIOLATION / 2 tool error. "
                 "Known findings: /verif/known_findings.json.",
    }
    with open(os.path.join(ROOT, "MANIFEST.json"), "w") as f:
        json.dump(m, f, indent=1)
    print("MANIFEST.json written:", len(checks), "checks,", len(na), "not applicable")


if __name__ == "__main__":
    main()
