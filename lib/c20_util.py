"""Helpers of the C20 check: spec values -> Python values, Jsonnet programs for each builtin,
comparison of an observed harness result with the expectation Codec.tla emitted."""
import json
from fractions import Fraction

import render

RADIX = {"parseInt": 10, "parseOctal": 8, "parseHex": 16}
DIGEST_FNS = ("md5", "sha1", "sha256", "sha512", "sha3")


def S(cps):
    return "".join(map(chr, cps))


def spec_value(v):
    """Python value of a value in the Values.tla encoding (numbers become doubles: the nearest
    double of the exact rational the specification gives)."""
    t = v["t"]
    if t == "null":
        return None
    if t == "bool":
        return v["b"]
    if t == "num":
        return float(Fraction(v["s"] * v["m"]) * Fraction(2) ** v["e"])
    if t == "dec":
        return float(Fraction(v["s"] * v["m"]) * Fraction(10) ** v["e"])
    if t == "str":
        return S(v["c"])
    if t == "arr":
        return [spec_value(x) for x in v["a"]]
    if t == "obj":
        return {S(f["k"]): spec_value(f["v"]) for f in v["f"]}
    raise ValueError(t)


def norm(x):
    """Observed JSON value with every number as a double (so 10 == 10.0 == 1e1, -0 == 0)."""
    if isinstance(x, bool) or x is None or isinstance(x, str):
        return x
    if isinstance(x, (int, float)):
        return float(x)
    if isinstance(x, list):
        return [norm(y) for y in x]
    if isinstance(x, dict):
        return {k: norm(y) for k, y in x.items()}
    raise ValueError(type(x))


def same_value(a, b):
    """Equality of normalised values that also distinguishes true from 1.0."""
    if type(a) is not type(b):
        return False
    if isinstance(a, list):
        return len(a) == len(b) and all(same_value(x, y) for x, y in zip(a, b))
    if isinstance(a, dict):
        return a.keys() == b.keys() and all(same_value(a[k], b[k]) for k in a)
    return a == b


def loads_manifest(text):
    """The manifested single-line JSON of the harness -> Python (control characters tolerated:
    how the implementation *prints* strings is property C05's business, not this one's)."""
    return json.loads(text, strict=False)


def descend(v):
    """For nesting documents: walk down single-element arrays / single-member objects of a spec
    value without recursion. Returns (path, leaf spec value)."""
    path = []
    while True:
        if v["t"] == "arr" and len(v["a"]) == 1:
            path.append(0)
            v = v["a"][0]
        elif v["t"] == "obj" and len(v["f"]) == 1:
            path.append(S(v["f"][0]["k"]))
            v = v["f"][0]["v"]
        else:
            return path, v


def path_lit(path):
    return "[" + ",".join(str(p) if isinstance(p, int) else render.str_lit(p) for p in path) + "]"


def bytes_lit(b):
    return "[" + ",".join(str(x) for x in b) + "]"


def program(fn, inp):
    """(Jsonnet source, manifest mode) applying builtin fn to the input of a case."""
    if fn in RADIX or fn in ("parseJson", "parseYaml", "encodeUTF8", "base64DecodeBytes"):
        return f"std.{fn}({render.str_lit(S(inp))})", "single"
    if fn == "base64":
        return f"std.base64({bytes_lit(inp)})", "string"
    if fn == "base64str":
        return f"std.base64({render.str_lit(S(inp))})", "string"
    if fn == "base64Decode":
        return f"std.base64Decode({render.str_lit(S(inp))})", "string"
    if fn == "decodeUTF8":
        return f"std.decodeUTF8({bytes_lit(inp)})", "string"
    if fn.startswith("escapeString") or fn in DIGEST_FNS:
        return f"std.{fn}({render.str_lit(S(inp))})", "string"
    raise ValueError(fn)


def cps_of(r):
    """Code points of a {"ok": string} result of manifest mode "string"; None if not a string."""
    v = r.get("ok")
    if not isinstance(v, str):
        return None
    return [ord(ch) for ch in v]


def show(cps, limit=60):
    if any(not (0 <= c <= 0x10FFFF) for c in cps):
        return str(list(cps))[:limit * 3]
    s = S(cps)
    out = json.dumps(s if len(s) <= limit else s[:limit] + "...(%d)" % len(s), ensure_ascii=True)
    return out


def cp_name(cp):
    return "U+%04X" % cp


# ---------------------------------------------------------------------------
# One-off generator of the data blocks pasted into spec/MC_Codec.tla (token tables as code point
# tuples) and spec/Codec.tla (digest known-answer table, computed ONCE with hashlib and frozen):
#   python3 lib/c20_util.py json | yaml | digests
import hashlib
import sys

def _gen_tup(s):
    return "<<" + ", ".join(str(ord(ch)) for ch in s) + ">>"

def _gen_show(s):
    return "".join(ch if 0x20 < ord(ch) < 0x7f else ("\\u%04x" % ord(ch) if ord(ch) < 0x10000 else "\\U%08x" % ord(ch)) if ch != " " else "␣" for ch in s)

JTOK = [
 ("LB", "{"), ("RB", "}"), ("LS", "["), ("RS", "]"), ("CL", ":"), ("CM", ","),
 ("SP", " "), ("TAB", "\t"), ("LF", "\n"), ("CR", "\r"), ("FF", "\x0c"), ("NBSP", " "), ("BOM", "﻿"),
 ("KA", '"a"'), ("KB", '"b"'), ("KAU", '"\\u0061"'), ("KE", '""'),
 ("N0", "0"), ("N1", "1"), ("NM15", "-1.5e1"), ("NM0", "-0"), ("NE", "1E+1"), ("NH", "0.5"), ("NT", "1e-1"), ("N10", "10"),
 ("TT", "true"), ("FF_", "false"), ("NL", "null"),
 ("SESC", '"a\\n\\"\\\\\\/\\b\\f\\r\\t\\u00e9é\U0001d11e"'),
 # invalid / unusual tokens used by mutations
 ("X01", "01"), ("XMINUS", "-"), ("XPLUS1", "+1"), ("X1DOT", "1."), ("XDOT1", ".1"), ("X1E", "1e"), ("X0X1", "0x1"),
 ("XBIG", "1e400"), ("XLONG", "123456789012345678901234567890"),
 ("XTRUE", "True"), ("XNUL", "nul"), ("XNAN", "NaN"), ("XINF", "-Infinity"), ("XSQ", "'a'"),
 ("XQ", '"'), ("XBS", "\\"), ("XESC", '"\\x"'), ("XLONE", '"\\ud800"'), ("XLOW", '"\\udc00"'), ("XPAIR", '"\\ud834\\udd1e"'),
 ("XREV", '"\\udd1e\\ud834"'), ("XU2", '"\\u12"'), ("XUG", '"\\u00gg"'),
 ("XCTL", '"\x1f"'), ("XNLS", '"\n"'), ("XDEL", '"\x7f"'), ("XC1", '"\u0085"'), ("XLS", '" "'), ("XNUL0", '"\x00"'),
 ("XFFFF", '"￿"'), ("XCOM", "/**/"), ("XLC", "//"), ("XHASH", "#"), ("XA", "a"),
]

YTOK = [
 ("Y_A", "a"), ("Y_COL", ": "), ("Y_DASH", "- "), ("Y_NL", "\n"), ("Y_IND", "  "), ("Y_ANCH", "&x "), ("Y_ALIAS", "*x"),
 ("Y_TSTR", "!!str "), ("Y_TLOC", "!t "), ("Y_DOC", "---\n"), ("Y_END", "...\n"), ("Y_LS", "["), ("Y_RS", "]"),
 ("Y_LB", "{"), ("Y_RB", "}"), ("Y_CM", ","), ("Y_DQ", '"'), ("Y_SQ", "'"), ("Y_LIT", "|\n"), ("Y_FOLD", ">-\n"),
 ("Y_Q", "? "), ("Y_HASH", " #"), ("Y_MERGE", "<<"), ("Y_HEX", "0x1f"), ("Y_TILDE", "~"), ("Y_DIR", "%YAML 1.2\n"),
 ("Y_TAB", "\t"), ("Y_E", "é"),
]

def _gen_tokens(name, toks):
    print(f"\\* ---- generated by lib/c20_util.py ({name}) ----")
    for n, s in toks:
        print(f"{n} == {_gen_tup(s)}    \\* {_gen_show(s)}")
    print(f"{name} == <<" + ", ".join(n for n, _ in toks) + ">>")

def _gen_digests():
    rows = []
    def add(label, s, src):
        rows.append((label, s, src))
    add("empty", "", "RFC 1321 A.5 / FIPS 180-4 / FIPS 202")
    add("a", "a", "RFC 1321 A.5")
    add("abc", "abc", "RFC 1321 A.5 / FIPS 180-4 / FIPS 202")
    add("message digest", "message digest", "RFC 1321 A.5")
    add("a..z", "abcdefghijklmnopqrstuvwxyz", "RFC 1321 A.5")
    add("A..Za..z0..9", "ABCDEFGHIJKLMNOPQRSTUVWXYZabcdefghijklmnopqrstuvwxyz0123456789", "RFC 1321 A.5")
    add("8 x 1234567890", "1234567890" * 8, "RFC 1321 A.5")
    add("448 bits", "abcdbcdecdefdefgefghfghighijhijkijkljklmklmnlmnomnopnopq", "FIPS 180-4 / FIPS 202 example")
    add("896 bits", "abcdefghbcdefghicdefghijdefghijkefghijklfghijklmghijklmnhijklmnoijklmnopjklmnopqklmnopqrlmnopqrsmnopqrstnopqrstu", "FIPS 180-4 / FIPS 202 example")
    for n in (55, 56, 57, 63, 64, 65, 71, 72, 73, 111, 112, 113, 119, 120, 127, 128, 129, 143, 144, 145, 1000):
        add(f"{n} x a", "a" * n, "block/padding boundary; frozen from an independent implementation")
    add("e-acute", "é", "non-ASCII; frozen")
    add("nul", "\x00", "frozen")
    add("controls/Latin-1", "\x00\x01\x7f\u0080ÿ", "frozen")
    add("mixed planes", "aé€\U0001d11e", "1-4 byte characters; frozen")
    add("U+FFFF U+10FFFF", "￿\U0010ffff", "frozen")
    add("greek", "κόσμε", "frozen")
    add("27 x e-acute", "é" * 27 + "a", "55 bytes of UTF-8 (MD5/SHA padding boundary); frozen")
    add("32 x e-acute", "é" * 32, "64 bytes of UTF-8; frozen")
    add("18 x g-clef", "\U0001d11e" * 18, "72 bytes of UTF-8 (SHA3-512 rate); frozen")
    print("\\* ---- generated by lib/c20_util.py (digests) ----")
    print("DigestTable == <<")
    out = []
    for label, s, src in rows:
        b = s.encode("utf-8")
        if len(set(s)) == 1 and len(s) > 8:
            inp = f"Rep({ord(s[0])}, {len(s)})"
        elif len(s) > 8 and s == s[:10] * 8:
            inp = "Cat([i \\in 1..8 |-> " + _gen_tup(s[:10]) + "])"
        elif len(set(s[:-1])) == 1 and len(s) > 8:
            inp = f"Rep({ord(s[0])}, {len(s)-1}) \\o {_gen_tup(s[-1])}"
        else:
            inp = _gen_tup(s)
        out.append(
            f"  \\* {label} ({src})\n"
            f"  [in |-> {inp}, nbytes |-> {len(b)},\n"
            f"   md5 |-> \"{hashlib.md5(b).hexdigest()}\",\n"
            f"   sha1 |-> \"{hashlib.sha1(b).hexdigest()}\",\n"
            f"   sha256 |-> \"{hashlib.sha256(b).hexdigest()}\",\n"
            f"   sha512 |-> \"{hashlib.sha512(b).hexdigest()}\",\n"
            f"   sha3 |-> \"{hashlib.sha3_512(b).hexdigest()}\"]")
    print(",\n".join(out))
    print(">>")



if __name__ == "__main__":
    what = sys.argv[1]
    if what == "json":
        _gen_tokens("JTok", JTOK)
    elif what == "yaml":
        _gen_tokens("YTok", YTOK)
    else:
        _gen_digests()
