"""Helpers of the C20 check: spec values -> Python values, Jsonnet programs for each builtin,
comparison of an observed harness result with the expectation Codec.tla emitted."""
import json
from fractions import Fraction

import render

RADIX = {"parseInt": 10, "parseOctal": 8, "parseHex": 16}
DIGEST_FNS = ("md5", "sha1", "sha256", "sha512", "sha3")


def S(cps):
    return "".join(map(chr, cps))


def spec_value(v):
    """Python value of a value in the Values.tla encoding (numbers become doubles: the nearest
    double of the exact rational the specification gives)."""
    t = v["t"]
    if t == "null":
        return None
    if t == "bool":
        return v["b"]
    if t == "num":
        return float(Fraction(v["s"] * v["m"]) * Fraction(2) ** v["e"])
    if t == "dec":
        return float(Fraction(v["s"] * v["m"]) * Fraction(10) ** v["e"])
    if t == "str":
        return S(v["c"])
    if t == "arr":
        return [spec_value(x) for x in v["a"]]
    if t == "obj":
        return {S(f["k"]): spec_value(f["v"]) for f in v["f"]}
    raise ValueError(t)


def norm(x):
    """Observed JSON value with every number as a double (so 10 == 10.0 == 1e1, -0 == 0)."""
    if isinstance(x, bool) or x is None or isinstance(x, str):
        return x
    if isinstance(x, (int, float)):
        return float(x)
    if isinstance(x, list):
        return [norm(y) for y in x]
    if isinstance(x, dict):
        return {k: norm(y) for k, y in x.items()}
    raise ValueError(type(x))


def same_value(a, b):
    """Equality of normalised values that also distinguishes true from 1.0."""
    if type(a) is not type(b):
        return False
    if isinstance(a, list):
        return len(a) == len(b) and all(same_value(x, y) for x, y in zip(a, b))
    if isinstance(a, dict):
        return a.keys() == b.keys() and all(same_value(a[k], b[k]) for k in a)
    return a == b


def loads_manifest(text):
    """The manifested single-line JSON of the harness -> Python (control characters tolerated:
    how the implementation *prints* strings is property C05's business, not this one's)."""
    return json.loads(text, strict=False)


def descend(v):
    """For nesting documents: walk down single-element arrays / single-member objects of a spec
    value without recursion. Returns (path, leaf spec value)."""
    path = []
    while True:
        if v["t"] == "arr" and len(v["a"]) == 1:
            path.append(0)
            v = v["a"][0]
        elif v["t"] == "obj" and len(v["f"]) == 1:
            path.append(S(v["f"][0]["k"]))
            v = v["f"][0]["v"]
        else:
            return path, v


def path_lit(path):
    return "[" + ",".join(str(p) if isinstance(p, int) else render.str_lit(p) for p in path) + "]"


def bytes_lit(b):
    return "[" + ",".join(str(x) for x in b) + "]"


def program(fn, inp):
    """(Jsonnet source, manifest mode) applying builtin fn to the input of a case."""
    if fn in RADIX or fn in ("parseJson", "parseYaml", "encodeUTF8", "base64DecodeBytes"):
        return f"std.{fn}({render.str_lit(S(inp))})", "single"
    if fn == "base64":
        return f"std.base64({bytes_lit(inp)})", "string"
    if fn == "base64str":
        return f"std.base64({render.str_lit(S(inp))})", "string"
    if fn == "base64Decode":
        return f"std.base64Decode({render.str_lit(S(inp))})", "string"
    if fn == "decodeUTF8":
        return f"std.decodeUTF8({bytes_lit(inp)})", "string"
    if fn.startswith("escapeString") or fn in DIGEST_FNS:
        return f"std.{fn}({render.str_lit(S(inp))})", "string"
    raise ValueError(fn)


def cps_of(r):
    """Code points of a {"ok": string} result of manifest mode "string"; None if not a string."""
    v = r.get("ok")
    if not isinstance(v, str):
        return None
    return [ord(ch) for ch in v]


def show(cps, limit=60):
    if any(not (0 <= c <= 0x10FFFF) for c in cps):
        return str(list(cps))[:limit * 3]
    s = S(cps)
    out = json.dumps(s if len(s) <= limit else s[:limit] + "...(%d)" % len(s), ensure_ascii=True)
    return out


def cp_name(cp):
    return "U+%04X" % cp
