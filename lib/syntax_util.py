"""Helpers of the C15 check: token layout, expected trees with byte spans, tree comparison."""
import json

SEPARATORS = ["", " ", "\n", "\t", "/*c*/", "# c\n"]

# structures of rsjsonnet_lang::ast that carry no SpanId of their own
SPANLESS = {"none", "bind", "param", "pos", "named", "mlocal", "fvalue", "ffunc", "for", "cif"}
# every node kind of spec/Syntax.tla (vacuity: each must occur in the expected trees of a run)
ALL_KINDS = {
    "null", "true", "false", "self", "dollar", "num", "str", "textblock", "var", "id", "super", "paren",
    "object", "objcomp", "array", "arraycomp", "field", "index", "slice", "superfield", "superindex",
    "insuper", "call", "pos", "named", "local", "bind", "params", "param", "if", "binary", "unary",
    "objext", "func", "assert", "assertion", "import", "error", "mlocal", "fvalue", "ffunc", "fstr",
    "fexpr", "for", "cif", "none",
}


def layout(toks, sep, rnd):
    """Joins the tokens.  rnd None: one space between all tokens (the layout whose byte
    spans the specification's ByteSpan is defined on); otherwise separators are drawn
    from SEPARATORS subject to the specification's codes: bit 0 = a separator is required
    (NeedsSeparator), bit 1 = a block comment may not follow (BlockCommentAllowedAfter).
    Returns (text, [(start, end) per token])."""
    parts = []
    spans = []
    pos = 0
    if rnd is not None:
        lead = rnd.choice(SEPARATORS)
        parts.append(lead)
        pos += len(lead)
    for i, t in enumerate(toks):
        parts.append(t)
        spans.append((pos, pos + len(t)))
        pos += len(t)
        last = i == len(toks) - 1
        if rnd is None:
            s = "" if last else " "
        else:
            code = 0 if last else sep[i]
            if last:
                # a block comment may not directly follow an operator token
                code = 2 if t and t[-1] in "!$:~+-&|^=<>*/%" else 0
            choices = [x for x in SEPARATORS
                       if not ((code & 1) and x == "") and not ((code & 2) and x.startswith("/*"))]
            s = rnd.choice(choices)
        parts.append(s)
        pos += len(s)
    return "".join(parts), spans


def expected_tree(n, spans):
    """Spec node (token indexes f, l) -> node with byte span for the layout `spans`."""
    kind = n["n"]
    if kind in SPANLESS:
        s = e = None
    else:
        s, e = spans[n["f"] - 1][0], spans[n["l"] - 1][1]
    return {"n": kind, "v": n["v"], "s": s, "e": e, "c": [expected_tree(c, spans) for c in n["c"]]}


def show(n):
    """Canonical text of a tree with byte spans: exactly the harness's `canon`."""
    if n["n"] == "none":
        return "_"
    head = n["n"] + (":" + json.dumps(n["v"]) if n.get("v") else "")
    if n.get("s") is not None:
        head += f"@{n['s']}-{n['e']}"
    if n["c"]:
        return head + "(" + ",".join(show(c) for c in n["c"]) + ")"
    return head


def canon(n, spans):
    """Canonical text the harness must return for the spec node n under the layout `spans`."""
    kind = n["n"]
    if kind == "none":
        return "_"
    v = n["v"]
    head = kind + (":" + json.dumps(v) if v else "")
    if kind not in SPANLESS:
        head += f"@{spans[n['f'] - 1][0]}-{spans[n['l'] - 1][1]}"
    c = n["c"]
    if c:
        return head + "(" + ",".join([canon(x, spans) for x in c]) + ")"
    return head


def strip_parens(n):
    if n["n"] == "paren":
        return strip_parens(n["c"][0])
    return {"n": n["n"], "v": n["v"], "c": [strip_parens(c) for c in n["c"]]}


def compare(exp, got, path="root", parent_kind=None):
    """First difference between the expected tree and the tree the parser returned:
    None or (class, path, description)."""
    gk = got["n"]
    gv = got["v"]
    if exp["n"] != gk or exp["v"] != gv:
        return ("shape", path, f"expected {exp['n']}:{exp['v']!r}, parser built {gk}:{gv!r}")
    if len(exp["c"]) != len(got["c"]):
        return ("shape", path, f"{gk}: expected {len(exp['c'])} children, parser built {len(got['c'])}")
    if gk in SPANLESS:
        if got["s"] is not None:
            return ("tool", path, f"{gk} unexpectedly carries a span")
    elif got["s"] is None:
        if not (gk == "params" and parent_kind == "func"):
            return ("tool", path, f"{gk} carries no span")
    elif (exp["s"], exp["e"]) != (got["s"], got["e"]):
        return ("span", path, f"{gk}: span must be [{exp['s']},{exp['e']}) = first token start .. last token end, "
                              f"parser says [{got['s']},{got['e']})")
    for i, (a, b) in enumerate(zip(exp["c"], got["c"])):
        d = compare(a, b, f"{path}/{gk}[{i}]", gk)
        if d:
            return d
    return None


def nesting_fault(n, lo=None, hi=None, path="root"):
    """Checks child-inside-parent and non-empty spans on the parser's own tree."""
    s, e = n.get("s"), n.get("e")
    if s is not None:
        if not s < e:
            return f"{path}/{n['n']}: empty or inverted span [{s},{e})"
        if lo is not None and not (lo <= s and e <= hi):
            return f"{path}/{n['n']}: span [{s},{e}) is not inside the parent's [{lo},{hi})"
        lo, hi = s, e
    for i, c in enumerate(n["c"]):
        f = nesting_fault(c, lo, hi, f"{path}/{n['n']}[{i}]")
        if f:
            return f
    return None


def kinds_of(n, acc):
    acc.add(n["n"])
    for c in n["c"]:
        kinds_of(c, acc)


def depth(n):
    return 1 + max([depth(c) for c in n["c"] if c["n"] != "none"], default=0)


def located(es, ee, toks, length):
    """The predicate of spec/Trace_Diag.tla, evaluated in Python."""
    well = all(0 <= s < e <= length for s, e in toks) and all(toks[i][1] <= toks[i + 1][0] for i in range(len(toks) - 1))
    return well and (any((s, e) == (es, ee) for s, e in toks) or (es, ee) == (length, length))
