"""Helpers of the C16 check (diagnostics locate inside the source and render).

 * conversion of the <<hi, lo>> numbers of spec/Spans.tla to u64
 * generators of FAILING programs (repository fail tests, seeded mutations of
   pass tests, a family generator: error kinds x surroundings, call chains)
 * events for spec/Trace_Spans.tla
 * parsing of the human-readable report of the real binary
"""
import os
import re

import corpus

B = 1 << 20
UI = "/repo/ui-tests"
STDLIB_PATH = "/repo/rsjsonnet-lang/src/program/std.libsonnet"


def big(hi, lo):
    return hi * B + lo


def script_ops(ops):
    """TLC script (tuples of ints) -> harness operations with u64 operands."""
    out = []
    for op in ops:
        if op[0] == 0:
            out.append(["ctx", big(op[1], op[2])])
        else:
            out.append(["span", op[1], big(op[2], op[3]), big(op[4], op[5])])
    return out


# ---------------------------------------------------------------------------
# failing programs

class Prog:
    """One program: main source bytes, imported files by literal path, options."""
    __slots__ = ("name", "src", "files", "max_stack", "cwd", "family", "chain")

    def __init__(self, name, src, files=None, max_stack=None, cwd=None, family="", chain=None):
        self.name = name
        self.src = src if isinstance(src, bytes) else src.encode()
        self.files = files or {}
        self.max_stack = max_stack
        self.cwd = cwd              # directory the CLI is run in (None: scratch dir)
        self.family = family
        self.chain = chain          # for call chains: number of calls

    def case(self):
        c = {"k": "eval", "manifest": "multi"}
        try:
            c["src"] = self.src.decode("utf-8")
            # JSON cannot carry lone surrogates etc.; bytes are always safe
        except UnicodeDecodeError:
            c["src_bytes"] = list(self.src)
        if self.files:
            c["files"] = {k: v.decode("utf-8") for k, v in self.files.items()}
        if self.max_stack is not None:
            c["max_stack"] = self.max_stack
        return c


_IMPORT_RE = re.compile(rb"\b(import|importstr|importbin)\s*@?([\"'])(.*?)\2")


def _collect_imports(path, data, files, depth=0):
    """Literal import paths reachable from `data`, resolved next to `path`.
    Returns False when the same literal would mean two different files."""
    if depth > 6:
        return True
    for m in _IMPORT_RE.finditer(data):
        lit = m.group(3).decode("utf-8", "replace")
        target = os.path.join(os.path.dirname(path), lit)
        if not os.path.isfile(target):
            continue
        with open(target, "rb") as f:
            content = f.read()
        try:
            content.decode("utf-8")
        except UnicodeDecodeError:
            return False
        if lit in files:
            if files[lit] != content:
                return False
            continue
        files[lit] = content
        if m.group(1) == b"import":
            if os.path.dirname(lit):
                return False        # nested directories: display names not decided here
            if not _collect_imports(target, content, files, depth + 1):
                return False
    return True


def ui_fail_programs():
    """Programs of /repo/ui-tests/fail (with their --max-stack directive and
    imported files); programs needing other command-line arguments, or importing
    themselves, are skipped."""
    out, skipped = [], 0
    base = os.path.join(UI, "fail")
    for dp, _, fns in sorted(os.walk(base)):
        for fn in sorted(fns):
            if not fn.endswith(".jsonnet"):
                continue
            p = os.path.join(dp, fn)
            with open(p, "rb") as f:
                data = f.read()
            max_stack = None
            ok = True
            for m in re.finditer(rb"^//@args:(.*)$", data, re.M):
                a = m.group(1).decode().split()
                if len(a) == 2 and a[0] == "--max-stack" and a[1].isdigit():
                    max_stack = int(a[1])
                else:
                    ok = False
            if re.search(rb"^//@(?!args:|exit-code: 1)", data, re.M):
                ok = False
            files = {}
            if ok and b"import" in data:
                ok = _collect_imports(p, data, files)
            if fn in files:
                ok = False      # imports itself: the harness loads a second copy, the binary reuses the first
            if not ok:
                skipped += 1
                continue
            out.append(Prog("ui/" + os.path.relpath(p, UI), data, files, max_stack,
                            cwd=dp, family="ui-fail"))
    return out, skipped


MULTI = ["\u00e9", "\U0001F600", "\u2028", "\u0301", "\u4e2d", "\u200b", "\ufeff"]


def mutated_pass_programs(r, per_file):
    """Seeded single mutations of the repository's passing programs."""
    out = []
    for name, data in corpus.ui_programs(subdirs=("pass",)):
        if len(data) < 2:
            continue
        for j in range(per_file):
            kind = r.choice(["truncate", "delete", "insert", "insert", "tab", "crlf"])
            pos = r.choice([0, len(data) - 1, r.randrange(len(data)), r.randrange(len(data)),
                            r.randrange(len(data))])
            if kind == "truncate":
                pos = max(pos, 1) if r.random() < 0.9 else 0
                m = data[:pos]
            elif kind == "delete":
                m = data[:pos] + data[pos + 1:]
            elif kind == "insert":
                m = data[:pos] + r.choice(MULTI).encode() + data[pos:]
            elif kind == "tab":
                m = data[:pos] + b"\t" + data[pos:]
            else:
                # turn every line break before pos into CRLF, then delete one byte
                head = data[:pos].replace(b"\r\n", b"\n").replace(b"\n", b"\r\n")
                m = head + data[pos + 1:]
            out.append(Prog(f"mut/{name}#{kind}@{pos}", m, family="mut-" + kind))
    return out


# (label, text or bytes).  Every core is meant to fail; whether and how it
# fails once wrapped is observed, never predicted.
LEX_CORES = [
    ("unfinished-string", '"abc'), ("unfinished-string-mb", '"é\U0001F600'),
    ("unfinished-verbatim", '@"abc'), ("unfinished-comment", "/* abc"),
    ("unfinished-comment-mb", "/* é"), ("bad-escape", '"a\\qb"'), ("bad-escape-mb", '"é\\q"'),
    ("short-unicode", '"\\u12"'), ("lone-surrogate", '"\\uD800"'), ("bad-surrogate", '"\\uD800\\u0041"'),
    ("missing-frac", "1."), ("missing-exp", "1e"), ("missing-exp-sign", "1e+"), ("leading-zero", "01"),
    ("underscore", "1_"), ("exp-overflow", "1e99999999999"),
    ("invalid-char-mb2", "é"), ("invalid-char-mb4", "\U0001F600"), ("invalid-char-mb3", "中 + 1"),
    ("invalid-char-ascii", "`"), ("invalid-char-after", "1 + é"),
    # multi-byte characters of display width 0
    ("invalid-char-combining", "\u0301"), ("invalid-char-combining-after", "a\u0301"),
    ("invalid-char-zwsp", "1 + \u200b"), ("invalid-char-zwj", "1 + \u200d"), ("invalid-char-bom", "\ufeff1"),
    ("invalid-char-shy", "\u00ad"), ("invalid-char-wide", "\uff21"),
    ("textblock-noeol", "|||x"), ("textblock-nows", "|||\nx\n|||"), ("textblock-unterminated", "|||\n  a\n"),
    ("textblock-badterm", "|||\n  a\n b\n|||"),
    ("invalid-utf8", b"\xff"), ("invalid-utf8-in-string", b'"a\xc3"'), ("invalid-utf8-trunc", b"1 + \xe4\xb8"),
    ("invalid-utf8-comment", b"// \xff\n"),
]
PARSE_CORES = [
    ("eof-after-op", "1 +"), ("open-paren", "(1"), ("close-paren", ")"), ("empty-bind", "local x = ; x"),
    ("double-comma", "{a: 1,, }"), ("open-array", "[1, 2"), ("if-then-eof", "if 1 then"),
    ("function-eof", "function("), ("local-eof", "local"), ("field-no-value", "{a}"),
    ("two-exprs", "1 2"), ("dot-eof", "x."), ("bad-computed", "{ [1 }"), ("mb-string-then-bad", '"é\U0001F600" )'),
    ("tab-then-bad", "[1,\t\t)"), ("keyword", "local if = 1; 2"), ("for-eof", "[x for x in"),
]
STATIC_CORES = [
    ("unknown-var", "x"), ("unknown-var-late", "local a = 1; a + bcd"), ("self-outside", "self"),
    ("super-outside", "super.a"), ("dollar-outside", "$"), ("dup-local", "local a = 1, a = 2; a"),
    ("dup-param", "function(a, a) 1"), ("dup-field", "{a: 1, a: 2}"),
    ("pos-after-named", "local f(a, b) = a; f(a=1, 2)"), ("computed-import", 'import "a" + "b"'),
    ("textblock-import", "import |||\n a\n|||"), ("dup-local-mb", 'local a = "é", a = 2; a'),
    ("dup-local-lines", "local a = 1,\r\n\ta = 2; a"),
    # two-label diagnostics whose first definition comes after members that are not fields
    ("dup-field-after-local", "{ local s = 10, width: 3 * s, width: 4 * s }"),
    ("dup-field-after-assert", "{ local s = 1, assert true, a: s, b: 2, c: 3, a: 4 }"),
    ("dup-field-string-ident", '{ local s = 1, local t = 2, "a": s, a: t }'),
    ("dup-object-local", "{ x: 1, local a = 1, y: 2, local a = 2 }"),
    ("dup-param-default", "function(a, b = 1, c = 2, b = 3) a"),
    ("dup-field-last-of-many", "{ assert true, local q = 0, a: 1, b: 2, c: 3, d: 4, e: 5, e: 6 }"),
]
RUNTIME_CORES = [
    ("explicit", 'error "boom"'), ("explicit-mb", 'error "é\U0001F600"'), ("div0", "1 / 0"), ("index-range", "[1][5]"),
    ("no-field", "{}.a"), ("no-field-std", "std.foo"), ("std-arg", "std.length(1)"), ("assert", "assert false; 1"),
    ("assert-msg", 'assert 1 == 2 : "m"; 1'), ("binop", "{} + 1"), ("unop", "!1"), ("cond", "if 1 then 2"),
    ("too-many-args", "local f(x) = x; f(1, 2)"), ("unknown-param", "local f(x) = x; f(y=1)"),
    ("not-function", "1(2)"), ("inf-rec", "local x = x; x"), ("manifest-function", "function(x) x"),
    ("field-of-non-object", "1.a"), ("string-index", '"abc"[10]'), ("string-index-type", '"abc"["x"]'),
    ("object-assert", "{assert false}"), ("object-assert-field", "{assert self.a == 2, a: 1}"),
    ("import-missing", 'import "nofile.libsonnet"'), ("importstr-missing", 'importstr "nofile.txt"'),
    ("overflow", "1e308 * 10"), ("shift-neg", "1 << -1"), ("std-join", 'std.join(",", [1])'),
    ("std-in-std", "std.map(function(x) error 'e', [1])[0]"), ("std-sort", "std.sort([1, 'a'])"),
    ("std-format", '"%d" % "x"'), ("std-parse-json", 'std.parseJson("{")'), ("std-assert-equal", "std.assertEqual(1, 2)"),
    ("deep-stack", "local f(x) = f(x + 1) + 1; f(0)"), ("super-no-super", "{a: super.b}.a"),
    ("compare", "{} < {}"), ("compare-items", "[1, {}] < [1, {}]"), ("equals-fn", "[function() 1] == [function() 1]"),
    ("slice-type", '[1][::"a"]'), ("for-non-array", "[x for x in 1]"), ("field-name-type", "{[1]: 2}"),
    # failing inside the part of the standard library that is written in Jsonnet (<stdlib> spans)
    ("stdlib-abs", 'std.abs("a")'), ("stdlib-max", 'std.max(1, "a")'), ("stdlib-clamp", 'std.clamp("a", 1, 2)'),
    ("stdlib-round", 'std.round("x")'), ("stdlib-isEmpty", "std.isEmpty(1)"), ("stdlib-lines", "std.lines(1)"),
    ("stdlib-objectValues", 'std.objectValues({a: error "v"})[0]'), ("stdlib-get", 'std.get(1, "a")'),
    ("stdlib-manifestJson", "std.manifestJson(function() 1)"), ("stdlib-objectHas", 'std.objectHas(1, "a")'),
    ("stdlib-sign", 'std.sign("a")'), ("stdlib-xor-deep", "std.objectKeysValues({a: error 'kv'})[0].value"),
    ("dup-field-dyn", "{[k]: 1 for k in ['a', 'a']}"), ("tailstrict", "local f(x) = error 'x'; f(1) tailstrict"),
]
RUNTIME_WRAPPERS = [
    ("plain", "%s"), ("field", "{a: %s}.a"), ("item", "[%s][0]"), ("var", "local v = %s; v"),
    ("call", "local f(x) = %s; f(1)"), ("manifest-field-item", "{a: [0, %s]}"), ("comp", "[%s for x in [1]][0]"),
    ("objcomp", "{[k]: %s for k in ['a']}.a"), ("std-map", "std.map(function(x) %s, [1])[0]"),
    ("named-call", "local f(x, y=2) = x; f(x=%s)"), ("paren-lines", "(\r\n\t%s\r\n)"),
    ("std-foldl", "std.foldl(function(a, b) %s, [1], 0)"), ("hidden", "{a:: %s, b: self.a}"),
]
PREFIXES = [
    ("none", ""), ("space", " "), ("tab", "\t"), ("tabs-spaces", "\t \t"), ("lf", "\n"), ("crlf", "\r\n"),
    ("crlf-tab", "\r\n\t"), ("mb-comment", "// é\U0001F600 ü\n"), ("mb-block-crlf", "/* é\r\n\U0001F600 */\r\n  "),
    ("mb-local-line", 'local s = "é\U0001F600";\n'), ("mb-local-same-line", 'local s = "é\U0001F600"; '),
    ("tab-string-same-line", "local s = 'tab\\there'; "), ("ten-lines", "\n" * 10), ("tab-after-code", 'local t = "x";\t'),
    ("cr-only", "\r"), ("bom-like-comment", "#中文\n"), ("hundred-lines", "# c\n" * 100),
]
SUFFIXES = [
    ("none", ""), ("lf", "\n"), ("crlf", "\r\n"), ("space", " "), ("tab", "\t"), ("mb-comment", " // é"),
    ("lf-lf", "\n\n"),
]


def _b(x):
    return x if isinstance(x, bytes) else x.encode()


def family_programs():
    """Error kind x surroundings (first/last byte, EOF, multi-byte, CRLF, tabs),
    run-time errors additionally inside constructs that add stack-trace entries,
    and errors inside an imported file."""
    out = []
    for stage, cores in (("lex", LEX_CORES), ("parse", PARSE_CORES), ("static", STATIC_CORES)):
        for label, core in cores:
            for pl, pre in PREFIXES:
                for sl, suf in SUFFIXES:
                    out.append(Prog(f"fam/{stage}/{label}/{pl}/{sl}", _b(pre) + _b(core) + _b(suf),
                                    family="fam-" + stage))
    for label, core in RUNTIME_CORES:
        for wl, w in RUNTIME_WRAPPERS:
            body = w % core
            for pl, pre in PREFIXES:
                for sl, suf in (SUFFIXES[0], SUFFIXES[1], SUFFIXES[2], SUFFIXES[5]):
                    if wl != "plain" and (pl, sl[0]) not in (("none", "none"), ("crlf-tab", "crlf"),
                                                             ("mb-local-same-line", "none"),
                                                             ("mb-comment", "lf"), ("tab", "mb-comment")):
                        continue
                    out.append(Prog(f"fam/run/{label}/{wl}/{pl}/{sl[0]}", _b(pre) + _b(body) + _b(suf),
                                    family="fam-run"))
    # errors of every stage inside an imported file (spans must name the import)
    want = ("unfinished-string", "invalid-char-mb2", "eof-after-op", "close-paren", "unknown-var", "dup-local",
            "explicit", "div0", "std-arg", "inf-rec")
    lib_cores = [c for c in LEX_CORES + PARSE_CORES + STATIC_CORES + RUNTIME_CORES if c[0] in want]
    mains = [("direct", 'import "lib.libsonnet"'), ("field", '{a: (import "lib.libsonnet")}.a'),
             ("longer-main", "# " + "x" * 300 + "\nlocal l = import 'lib.libsonnet'; [l]"),
             ("call", 'local f(x) = import "lib.libsonnet"; f(1)'),
             ("two-libs", 'local a = import "ok.libsonnet"; a.v + (import "lib.libsonnet")')]
    for label, core in lib_cores:
        for pl, pre in PREFIXES:
            for sl, suf in (SUFFIXES[0], SUFFIXES[2], SUFFIXES[5]):
                for ml, main in mains:
                    if ml != "direct" and pl not in ("none", "crlf-tab", "mb-local-same-line", "hundred-lines"):
                        continue
                    files = {"lib.libsonnet": _b(pre) + _b(core) + _b(suf)}
                    if ml == "two-libs":
                        files["ok.libsonnet"] = b"{v: 1, pad: '" + b"p" * 500 + b"'}"
                    try:
                        files["lib.libsonnet"].decode("utf-8")
                    except UnicodeDecodeError:
                        continue
                    out.append(Prog(f"fam/import/{label}/{ml}/{pl}/{sl}", main, files, family="fam-import"))
    return out


LINKS = {
    # kind: (definition of link k in terms of the expression `prev`, how to use link k)
    "call": (lambda k, prev: f"local f{k}(x) = {prev};", lambda k: f"f{k}(1)"),
    "field": (lambda k, prev: f"local o{k} = {{v: {prev}}};", lambda k: f"o{k}.v"),
    "item": (lambda k, prev: f"local a{k} = [{prev}];", lambda k: f"a{k}[0]"),
    "var": (lambda k, prev: f"local v{k} = {prev};", lambda k: f"v{k}"),
}


def chain_program(kinds, eol="\n", indent=""):
    """`kinds[0]` is the innermost link.  Every link is on its own line, so every
    stack-trace entry has its own location line."""
    lines = []
    prev = 'error "boom"'
    for k, kind in enumerate(kinds):
        d, u = LINKS[kind]
        lines.append(indent + d(k, prev))
        prev = u(k)
    lines.append(indent + prev)
    return eol.join(lines) + eol


# ---------------------------------------------------------------------------
# report parsing

SGR_RE = re.compile(r"\x1b\[[0-9;]*m")
LOC_RE = re.compile(r"^ *--> (.*):(\d+):(\d+)$")
HIDDEN_RE = re.compile(r"^note: \.\.\. (\d+) items hidden \.\.\.$")


def parse_report(text):
    """Splits a report into blocks.  A block starts at a line `error: ...` or
    `note: ...` in column 0; its locations are the ` --> path:line:col` lines
    before the next block."""
    blocks = []
    for line in text.split("\n"):
        if line.startswith("error: ") or line.startswith("note: "):
            if line.startswith("error: "):
                kind = "error"
            elif HIDDEN_RE.match(line):
                kind = "hidden"
            elif line.startswith("note: while "):
                kind = "entry"
            else:
                kind = "other"
            blocks.append({"kind": kind, "head": line, "locs": []})
            continue
        m = LOC_RE.match(line)
        if m and blocks:
            blocks[-1]["locs"].append((m.group(1), int(m.group(2)), int(m.group(3))))
    return blocks


def line_col(data, pos):
    """(line, column or None): line = number of LF before pos + 1; the column is
    decided only when everything between the line start and pos is printable
    ASCII (then it is the byte distance + 1)."""
    line = data.count(b"\n", 0, pos) + 1
    ls = data.rfind(b"\n", 0, pos) + 1
    prefix = data[ls:pos]
    if all(0x20 <= c <= 0x7e for c in prefix):
        return line, len(prefix) + 1
    return line, None
