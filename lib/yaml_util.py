"""std.parseYaml on a conservative subset of YAML 1.2 block style (part of check C20).

spec/Yaml.tla is the reference reader (ReadYaml: value | bad | outside), spec/MC_Yaml.tla generates documents
(abstract trees printed in many layouts, scalar corner cases in every position, multi-document streams,
exhaustive soups of scalar characters and of lines, single-character mutations of printed documents), checks
`ReadYaml(Print(d)) = ValueOf(d)` where the value is known by construction, and prints one CASE per text.
yaml_part() evaluates std.parseYaml(text) in the real implementation and compares:

    expected value  -> the same JSON value (numbers by value)
    expected bad    -> an error
    outside         -> a value or an error (no crash, no time-out)

Every decided text is first cross-checked against PyYAML (libyaml): the node graph it composes (structure, keys,
scalar style), with plain scalars resolved by an independent transcription of the YAML 1.2 core schema (regular
expressions below), must give the reference reader's value, and PyYAML must refuse what the reader calls bad.  A
difference there is an error of the specification (ToolError), never a finding.  Where PyYAML's own (YAML 1.1)
resolution of a plain scalar differs from the 1.2 core schema the scalar must be in the list of known 1.1/1.2
differences (YAML11_DIFF); anything else is a ToolError too.
"""
import json
import re
import sys
import time
from fractions import Fraction

import render
import vlib
import c20_util as U
import c05_util
from vlib import run_tlc, tlc_must_pass, run_cases

# (cfg suffix, label, workers)
PLAN = {
    "quick": [("quick", "yaml subset, quick bounds: scalar table (200 rows) x 10 positions, 421 trees of depth <= 2 x 4 layouts, "
                        "streams of <= 2 documents, \"- \" + all strings of <= 3 of 13 number characters, all texts of <= 3 of "
                        "20 line forms, every single-character insertion (23 characters) / deletion in 1 printed document", 3)],
    "thorough": [("thorough_a", "yaml subset, thorough bounds: scalar table x 10 positions, 421 trees of depth <= 2 x 48 variants "
                                "(24 layouts) and a sample (seeded) of 7500 depth-3 trees x 3 variants, streams of <= 3 "
                                "documents, all strings of <= 4 of 13 number characters, every single-character insertion / "
                                "deletion / replacement in 6 printed documents", 3),
                 ("thorough_b", "yaml subset: all texts of <= 3 of 36 line forms (indentations 0, 1, 2, 4)", 3),
                 ("thorough_c", "yaml subset: all texts of exactly 4 of 20 line forms (indentations 0, 2)", 3)],
}

# ---------------------------------------------------------------------------
# Independent transcription of the YAML 1.2 core schema (10.3.2) for the PyYAML cross-check
_NULL = re.compile(r"^(null|Null|NULL|~)$")
_TRUE = re.compile(r"^(true|True|TRUE)$")
_FALSE = re.compile(r"^(false|False|FALSE)$")
_INT10 = re.compile(r"^[-+]?[0-9]+$")
_INT8 = re.compile(r"^0o[0-7]+$")
_INT16 = re.compile(r"^0x[0-9a-fA-F]+$")
_FLOAT = re.compile(r"^[-+]?(\.[0-9]+|[0-9]+(\.[0-9]*)?)([eE][-+]?[0-9]+)?$")
_INFNAN = re.compile(r"^([-+]?\.(inf|Inf|INF)|\.(nan|NaN|NAN))$")


class NotJson(Exception):
    pass


def core_resolve(text):
    """Value of a plain scalar under the YAML 1.2 core schema (float for every number)."""
    if text == "" or _NULL.match(text):
        return None
    if _TRUE.match(text):
        return True
    if _FALSE.match(text):
        return False
    if _INT10.match(text):
        return float(int(text))
    if _INT8.match(text):
        return float(int(text[2:], 8))
    if _INT16.match(text):
        return float(int(text[2:], 16))
    if _FLOAT.match(text):
        m = re.match(r"^([-+]?)([0-9]*)\.?([0-9]*)(?:[eE]([-+]?[0-9]+))?$", text)
        sign, ip, fp, ex = m.group(1), m.group(2), m.group(3), m.group(4)
        q = Fraction(int((ip + fp) or "0")) * Fraction(10) ** (int(ex or "0") - len(fp))
        x = float(q)          # nearest double (OverflowError beyond the range)
        return -x if sign == "-" else x
    if _INFNAN.match(text):
        raise NotJson(text)
    return text


# plain scalars that PyYAML (YAML 1.1 types) resolves differently from the 1.2 core schema
YAML11_DIFF = re.compile(
    r"^(y|Y|yes|Yes|YES|n|N|no|No|NO|on|On|ON|off|Off|OFF"            # 1.1 booleans
    r"|[-+]?0[0-9_]+"                                                   # 1.1 octal / leading zeros
    r"|0o[0-7]+"                                                        # 1.2 octal
    r"|[-+]0x[0-9a-fA-F_]+|0x[0-9a-fA-F_]*_[0-9a-fA-F_]*"               # signed hex, _ in hex
    r"|[-+]?0b[01_]+"                                                   # 1.1 binary
    r"|[-+]?[0-9][0-9_]*_[0-9_]*(\.[0-9_]*)?([eE][-+][0-9]+)?"          # 1.1 digit grouping
    r"|[-+]?[0-9][0-9_]*(:[0-5]?[0-9])+(\.[0-9_]*)?"                    # 1.1 sexagesimal
    r"|[-+]?(\.[0-9]+|[0-9]+(\.[0-9]*)?)([eE][-+]?[0-9]+)?"             # floats: 1.1 wants a dot and a signed exponent
    r"|[-+]?\.[0-9_]+([eE][-+][0-9]+)?|[-+]?[0-9][0-9_]*\.[0-9_]*([eE][-+][0-9]+)?"   # 1.1 floats with _
    r"|=|<<"                                                            # 1.1 value / merge keys
    r"|[0-9][0-9][0-9][0-9]-[0-9][0-9]?-[0-9][0-9]?.*)$")               # 1.1 timestamps


def _yaml():
    import yaml
    return yaml


def py_read(text):
    """What PyYAML composes from the text, with plain scalars resolved by core_resolve:
    ("ok", value, diffs) | ("err", message) | ("notjson", why).  diffs: plain scalars on which PyYAML's
    own implicit resolution (YAML 1.1) differs from the core schema."""
    yaml = _yaml()
    Loader = getattr(yaml, "CSafeLoader", yaml.SafeLoader)
    try:
        explicit = [e.explicit for e in yaml.parse(text, Loader=Loader) if isinstance(e, yaml.DocumentStartEvent)]
        docs = list(yaml.compose_all(text, Loader=Loader))
    except yaml.YAMLError as e:
        return ("err", type(e).__name__ + ": " + " ".join(str(e).split())[:160])
    diffs = []
    ctor = yaml.SafeLoader("")

    def conv(node, seen):
        if id(node) in seen:
            raise NotJson("alias")
        if isinstance(node, yaml.ScalarNode):
            if node.tag.startswith("!") and not node.tag.startswith("tag:yaml.org,2002:"):
                raise NotJson("tag")
            if node.style in (None, ""):
                v = core_resolve(node.value)
                try:
                    pv = ctor.construct_object(node, deep=True)
                    pv = float(pv) if isinstance(pv, (int, float)) and not isinstance(pv, bool) else pv
                except Exception:
                    pv = ("unconstructible",)
                if not (type(pv) is type(v) and pv == v):
                    diffs.append(node.value)
                return v
            if node.style in ('"', "'"):
                return node.value
            raise NotJson("block scalar")
        if isinstance(node, yaml.SequenceNode):
            return [conv(x, seen | {id(node)}) for x in node.value]
        if isinstance(node, yaml.MappingNode):
            out = {}
            for k, v in node.value:
                if not isinstance(k, yaml.ScalarNode):
                    raise NotJson("complex key")
                if k.style in (None, "") and not isinstance(core_resolve(k.value), str):
                    raise NotJson("non-string key")
                if k.value in out:
                    raise NotJson("duplicate key")
                if k.style in (None, ""):
                    try:
                        pk = ctor.construct_object(k, deep=True)
                    except Exception:
                        pk = ("unconstructible",)
                    if not (isinstance(pk, str) and pk == k.value):
                        diffs.append(k.value)
                out[k.value] = conv(v, seen | {id(node)})
            return out
        raise NotJson(type(node).__name__)

    try:
        vals = [None if d is None else conv(d, frozenset()) for d in docs]
    except NotJson as e:
        return ("notjson", str(e))
    except OverflowError:
        return ("notjson", "number out of range")
    if not docs:
        return ("notjson", "no document")
    if any(explicit):
        return ("ok", vals, diffs)
    if len(vals) != 1:
        return ("notjson", "several implicit documents")
    return ("ok", vals[0], diffs)


def _explicit(text):
    """Does the stream use an explicit document start?"""
    yaml = _yaml()
    Loader = getattr(yaml, "CSafeLoader", yaml.SafeLoader)
    return any(e.explicit for e in yaml.parse(text, Loader=Loader) if isinstance(e, yaml.DocumentStartEvent))


# ---------------------------------------------------------------------------
def _case(text):
    return {"k": "eval", "src": f"std.parseYaml({render.str_lit(text)})", "manifest": "single"}


def yaml_part(chk, tier, seed, plan=None, workers=None, need=("scalar", "doc", "stream", "numsoup", "soup", "mut"),
              strict=True):
    """Runs the YAML-subset universes and records results in the Check `chk`.
    strict=False (demonstrations with a deliberately wrong reader only): differences between the specification
    and PyYAML are counted instead of raised."""
    t_start = time.time()
    seen = set()
    classes = {}          # universe -> expected class -> count
    observed = {}
    pending = {}
    py_stats = {"agree": 0, "agree_with_pyyaml_own_resolution": 0, "yaml11_differences": 0, "bad_refused": 0}
    diff_scalars = {}
    samples = {}

    def bump(t, u, cl):
        d = t.setdefault(u, {})
        d[cl] = d.get(cl, 0) + 1

    spec_errors = []

    def spec_err(msg):
        if strict:
            raise vlib.ToolError("specification error (Yaml.tla): " + msg)
        spec_errors.append(msg)

    def bad(cls, what, case, expected, **more):
        sig = {"kind": "yaml-subset", "fn": "parseYaml", "class": cls}
        sig.update(more)
        k = json.dumps(sig, sort_keys=True)
        pending.setdefault(k, []).append((sig, what, dict(case, expected=expected)))

    for cfg, label, w in (plan or PLAN[tier]):
        res = run_tlc("MC_Yaml", f"MC_Yaml_{cfg}.cfg", f"c20_yaml_{cfg}", workers=workers or w, timeout=3000,
                      coverage=False, seed=seed)
        tlc_must_pass(res, f"Yaml laws / emission ({cfg})")
        chk.add_tlc(res, f"yaml {cfg}: {label}; law ReadYaml(Print(d)) = ValueOf(d) + case emission")
        cases, meta = [], []
        for c in res.lines("CASE"):
            text = U.S(c["in"])
            if text in seen:
                continue
            seen.add(text)
            cases.append(_case(text))
            meta.append((c, text))
        if not cases:
            raise vlib.ToolError(f"TLC run yaml {cfg} emitted no case")
        # --- cross-check of the specification against PyYAML -----------------
        t0 = time.time()
        for c, text in meta:
            exp = c["exp"]
            if exp["k"] == "outside":
                continue
            pr = py_read(text)
            if exp["k"] == "bad":
                if pr[0] != "err":
                    spec_err(f"{text!r} is called ill-formed, PyYAML reads it: {pr}")
                else:
                    py_stats["bad_refused"] += 1
                continue
            want = U.norm(U.spec_value(exp["v"]))
            if pr[0] != "ok" or not U.same_value(U.norm(pr[1]), want):
                spec_err(f"{text!r} is read as {json.dumps(want)[:200]}, PyYAML + core schema: {str(pr)[:300]}")
                continue
            py_stats["agree"] += 1
            if pr[2]:
                py_stats["yaml11_differences"] += 1
                for s in pr[2]:
                    if not YAML11_DIFF.match(s):
                        spec_err(f"(or core_resolve) plain scalar {s!r} in {text!r}: PyYAML resolves it differently and "
                                 "it is not a known YAML 1.1/1.2 difference")
                    diff_scalars[s] = diff_scalars.get(s, 0) + 1
            else:
                # no 1.1/1.2 difference in this text: PyYAML's own loader (as lib/c05_util.py uses it) gives the value
                full = c05_util.decode_yaml_all(text)
                full = full if _explicit(text) else full[0]
                if not U.same_value(U.norm(full), want):
                    spec_err(f"{text!r} is read as {json.dumps(want)[:200]}, yaml.safe_load_all: {str(full)[:300]}")
                    continue
                py_stats["agree_with_pyyaml_own_resolution"] += 1
        t_py = time.time() - t0
        # --- the implementation --------------------------------------------------
        t0 = time.time()
        results = run_cases(cases, f"c20_yaml_{cfg}", timeout_ms=15000)
        t_h = time.time() - t0
        for hc, (c, text), r in zip(cases, meta, results):
            exp, u = c["exp"], c["u"]
            shown = U.show(c["in"], 120)
            chk.count(key=hc["src"], nontrivial=exp["k"] != "outside" and len(text) >= 4)
            bump(classes, u, exp["k"])
            if vlib.is_crash(r):
                bad("crash", f"`{hc['src'][:300]}` crashed: {vlib.crash_desc(r)}", hc, exp, msg=vlib.crash_desc(r)[:120])
                continue
            bump(observed, u, "value" if "ok" in r else "error")
            if exp["k"] == "outside":
                chk.outside += 1
                continue
            if exp["k"] == "bad":
                if "ok" in r:
                    bad("accepts-ill-formed", f"std.parseYaml({shown}) = {r['ok'][:160]}; specification (Yaml.tla): ill-formed "
                        "YAML, an error", hc, "error", u=u)
                continue
            want = U.norm(U.spec_value(exp["v"]))
            if "err" in r:
                bad("rejects-valid", f"std.parseYaml({shown}) fails ({r['err'].get('msg', '')[:140]}); specification "
                    f"(Yaml.tla): {json.dumps(want)[:200]}", hc, want, u=u)
                continue
            try:
                got = U.norm(U.loads_manifest(r["ok"]))
            except Exception as e:
                raise vlib.ToolError(f"cannot read manifested result of {hc['src'][:200]}: {r['ok'][:200]!r}: {e}")
            if not U.same_value(got, want):
                bad("wrong-value", f"std.parseYaml({shown}) = {json.dumps(got)[:200]}; specification (Yaml.tla): "
                    f"{json.dumps(want)[:200]}", hc, want, u=u)
            elif len(text) >= 12 and u not in samples:
                samples[u] = {"universe": "yaml/" + u, "src": hc["src"][:200], "observed": r["ok"][:120]}
        vlib.log(f"[C20] yaml {cfg}: {len(cases)} texts, TLC {res.wall:.0f}s, PyYAML {t_py:.0f}s, harness {t_h:.0f}s")
    # vacuity
    tot = {}
    for u, d in classes.items():
        for k, n in d.items():
            tot[k] = tot.get(k, 0) + n
    for k in (("ok", "bad", "outside") if need else ()):
        if tot.get(k, 0) == 0:
            raise vlib.ToolError(f"vacuous yaml universes: no text of class {k}")
    for u in need:
        if classes.get(u, {}).get("ok", 0) == 0:
            raise vlib.ToolError(f"vacuous yaml universe {u}")
    for k in sorted(pending):
        chk.disagree(*pending[k][0])
    for k in sorted(pending):
        for item in pending[k][1:]:
            chk.disagree(*item)
    for u in sorted(samples):
        chk.sample(samples[u], limit=20)
    chk.traces_validated += len(seen)
    chk.extra["yaml_subset"] = {
        "texts": len(seen), "expected_classes": classes, "observed_outcomes": observed,
        "pyyaml_crosscheck": py_stats,
        "yaml11_vs_12_scalars_seen": dict(sorted(diff_scalars.items(), key=lambda kv: -kv[1])[:60]),
        "disagreement_classes": [{"sig": json.loads(k), "count": len(v), "example": v[0][1][:300]}
                                 for k, v in sorted(pending.items())],
        "exhaustive_scope": "every universe of MC_Yaml.tla is enumerated completely within the bounds its label names, except "
                            "the depth-3 trees of the thorough tier (a sample drawn by TLC from the seed)",
        "wall_s": round(time.time() - t_start, 1),
    }
    if spec_errors:
        chk.extra["yaml_subset"]["specification_vs_pyyaml"] = {"count": len(spec_errors), "examples": spec_errors[:10]}
    chk.assumptions.append(
        "std.parseYaml beyond JSON texts is decided on the subset of YAML 1.2 block style that spec/Yaml.tla delimits "
        "(its header lists what is outside: tabs, anchors, tags, block scalars, multi-line scalars, non-JSON flow "
        "collections, duplicate and non-string keys, .inf/.nan, empty streams, ...); outside it only totality is checked; "
        "a stream that uses `---` is an array of documents (Jsonnet's convention)")
    return len(seen)


# ---------------------------------------------------------------------------
# One-off generator of the data blocks of spec/MC_Yaml.tla:  python3 lib/yaml_util.py gen
def _tup(s):
    return "<<" + ", ".join(str(ord(ch)) for ch in s) + ">>"


def _show(s):
    return "".join(ch if 0x20 < ord(ch) < 0x7f else " " if ch == " " else "\\u%04x" % ord(ch) if ord(ch) < 0x10000
                   else "\\U%08x" % ord(ch) for ch in s)


def _S(s):
    return ("str", s)


def _I(n):
    return n


def _lit(v):
    """A TLA+ literal (records only, no operator calls: TLC re-evaluates those at every use) of a value."""
    if v is None:
        return '[t |-> "null"]'
    if isinstance(v, bool):
        return '[t |-> "bool", b |-> %s]' % ("TRUE" if v else "FALSE")
    if isinstance(v, int):
        return '[t |-> "num", s |-> %d, m |-> %d, e |-> 0]' % (-1 if v < 0 else 1, abs(v))
    if isinstance(v, tuple) and v[0] in ("num", "dec"):
        return '[t |-> "%s", s |-> %d, m |-> %d, e |-> %d]' % v
    if isinstance(v, tuple) and v[0] == "str":
        return '[t |-> "str", c |-> %s]' % _tup(v[1])
    if isinstance(v, list):
        return '[t |-> "arr", a |-> <<%s>>]' % ", ".join(_lit(x) for x in v)
    if isinstance(v, dict):
        return '[t |-> "obj", f |-> <<%s>>]' % ", ".join(
            '[k |-> %s, h |-> FALSE, v |-> %s]' % (_tup(k), _lit(v[k])) for k in sorted(v))
    raise ValueError(v)


OUT, BAD, NULL = "OutV", "BadV", "NullV"
# (text as written, expected value (TLA+) by construction)
SCALARS = [
    ("null", NULL), ("Null", NULL), ("NULL", NULL), ("~", NULL),
    ("true", True), ("True", True), ("TRUE", True),
    ("false", False), ("False", False), ("FALSE", False),
    ("nULL", None), ("tRUE", None), ("fALSE", None), ("nul", None), ("truee", None), ("~~", None), ("none", None), ("nil", None),
    ("yes", None), ("Yes", None), ("no", None), ("NO", None), ("on", None), ("Off", None), ("y", None), ("n", None),
    ("0", _I(0)), ("-0", ("num", -1, 0, 0)), ("+0", _I(0)), ("007", _I(7)), ("010", _I(10)), ("-010", _I(-10)), ("+1", _I(1)),
    ("-12", _I(-12)), ("123456789", _I(123456789)), ("00", _I(0)),
    ("0x1F", _I(31)), ("0xfF", _I(255)), ("0x0", _I(0)), ("0x00ff", _I(255)), ("0o17", _I(15)), ("0o0", _I(0)), ("0o007", _I(7)),
    ("0o18", None), ("0x1G", None), ("0X1F", None), ("0O17", None), ("0x", None), ("0o", None), ("-0x1", None), ("+0x1", None),
    ("-0o7", None), ("0b1", None), ("1_000", None), ("1:30", None), ("0o7_7", None), ("0x_1", None), ("017", _I(17)),
    ("1e3", _I(1000)), ("1E3", _I(1000)), ("1e+3", _I(1000)), ("1e-3", ("dec", 1, 1, -3)),
    ("1.5", ("num", 1, 3, -1)), (".5", ("num", 1, 1, -1)), ("-.5", ("num", -1, 1, -1)), ("+.5", ("num", 1, 1, -1)), ("5.", _I(5)),
    ("1.e3", _I(1000)), ("0.1", ("dec", 1, 1, -1)), ("-1.5e-1", ("dec", -1, 15, -2)),
    ("0e0", _I(0)), ("12e03", _I(12000)), ("00.5", ("num", 1, 1, -1)), ("-0.0", ("num", -1, 0, 0)), (".5e1", _I(5)),
    ("1.25E+2", _I(125)), ("0.", _I(0)), ("1e0", _I(1)),
    ("1e", None), ("e3", None), (".", None), ("+", None), ("-.", None), ("+.", None), ("1.5.1", None), (".e1", None), ("1e+", None),
    ("1e1.5", None), ("1,5", OUT), ("-a", None), ("-.a", None), ("+-1", None), ("--1", OUT), ("1-", None), ("1+1", None),
    (".inf", OUT), ("-.inf", OUT), (".nan", OUT), (".NaN", OUT), ("+.INF", OUT), (".Inf", OUT), (".iNF", None), ("-.nan", None),
    ("inf", None), ("NaN", None), ("1e400", OUT), ("-1e400", OUT), ("123456789012345678901", OUT), ("1e-999", OUT), ("1e-400", ("dec", 1, 1, -400)),
    ("&x 1", OUT), ("*x", OUT), ("!!str 1", OUT), ("!t 1", OUT), ("|", OUT), (">", OUT), (">-", OUT), ("?x", OUT), ("@x", OUT),
    ("`x", OUT), ("%x", OUT), (":x", OUT), (",x", OUT), ("]", OUT), ("}", OUT), ("a, b", OUT), ("[a, b]", OUT), ("{a: 1}", OUT),
    ("[1, 2", OUT), ("{\"a\": 1", OUT), ("[1,,2]", OUT), ("[1] x", OUT), ("{\"a\": 1, \"a\": 2}", OUT), ("['a']", OUT),
    ("\"a", OUT), ("'a", OUT), ("\"a\"b", OUT), ("'a'b", OUT), ("\"a\"#c", OUT), ("'a' 'b'", OUT), ("\"a\\", OUT),
    ("\"quoted\"", _S("quoted")), ("\"\"", _S("")), ("''", _S("")), ("'it''s'", _S("it's")), ("\"a # b: c\"", _S("a # b: c")),
    ("' # '", _S(" # ")), ("\"null\"", _S("null")), ("'1'", _S("1")), ("'true'", _S("true")), ("\"~\"", _S("~")),
    ("\"- a\"", _S("- a")), ("'a: b'", _S("a: b")), ("\" a \"", _S(" a ")), ("'\"'", _S('"')), ("\"'\"", _S("'")), ("''''", _S("'")),
    ("\"\\n\\t\\\"\\\\\\/\\u00e9\\x41\"", _S("\n\t\"\\/\u00e9A")),
    ("\"\\0\\a\\b\\e\\f\\r\\v\\ \\N\\_\\L\\P\\U0001d11e\"", _S("\x00\x07\x08\x1b\x0c\r\x0b \x85\xa0\u2028\u2029\U0001d11e")),
    ("\"\\U0010FFFF\\uFFFD\\x7f\"", _S("\U0010ffff\ufffd\x7f")),
    ("\"\u00e9\u65e5\U0001d11e\"", _S("\u00e9\u65e5\U0001d11e")), ("'\u00e9\\n'", _S("\u00e9\\n")),
    ("\"\\q\"", BAD), ("\"\\u12\"", BAD), ("\"\\xZ1\"", BAD), ("\"\\U0001d11\"", BAD), ("\"\\'\"", BAD), ("\"a\\ub\"", BAD),
    ("\"\\ud800\"", OUT), ("\"\\ud834\\udd1e\"", OUT), ("\"\\U00110000\"", OUT), ("\"\\UFFFFFFFF\"", OUT),
    ("a", None), ("a b", None), ("a  b", None), ("x#y", None), ("a:b", None), ("\u00e9\u65e5\U0001d11e", None), ("it's", None),
    ("a\"b", None), ("x%y&z*w!v|u>t@s`r", None), ("http://x.y/z?q=1", None), ("a-b", None), ("a.b", None), ("~a", None),
    ("null a", None), ("1 2", None), ("a #", _S("a")), ("a#", None), ("<<", None), ("=", None), ("2001-12-14", None),
    ("[1, \"a\"]", [1, _S("a")]), ("{\"k\": null}", {"k": None}), ("[]", []),
    ("{}", {}), ("[[1], {\"a\": [true]}]", [[1], {"a": [True]}]),
    ("{\"b\":1,\"a\":[1.5e1]}", {"a": [15], "b": 1}),
    ("[ \"\\u00e9\\n\" ]", [_S("\u00e9\n")]), ("[-0, 1E+1, 0.5]", [("num", -1, 0, 0), 10, ("num", 1, 1, -1)]),
]
# (key as written, key)
KEYS = [("a", "a"), ("b", "b"), ("\"c d\"", "c d"), ("'it''s'", "it's"), ("\u00e9", "\u00e9"), ("x y", "x y"), ("\"null\"", "null"),
        ("k#1", "k#1"), ("\"a: b\"", "a: b"), ("-k", "-k"), ("a:b", "a:b"), ("\"\\u00e9\\n\"", "\u00e9\n"), ("'#'", "#"),
        ("\"1\"", "1"), ("yes", "yes"), ("\"\"", ""), ("k :x", "k :x"), ("'~'", "~"), ("\U0001d11e", "\U0001d11e")]


def _gen():
    print("\\* ---- generated by lib/yaml_util.py (gen): scalar table ----")
    print("SC == <<")
    rows = []
    for txt, v in SCALARS:
        val = (v if v in (OUT, BAD) else _lit(None) if v is NULL else _lit(_S(txt)) if v is None else _lit(v))
        rows.append(f"  [x |-> {_tup(txt)}, v |-> {val}]    \\* {_show(txt)}")
    # the comment must come after the comma
    out = []
    for i, r in enumerate(rows):
        body, com = r.split("    \\* ")
        out.append(body + ("," if i + 1 < len(rows) else "") + "    \\* " + com)
    print("\n".join(out))
    print(">>")
    print("KT == <<")
    out = []
    for i, (txt, k) in enumerate(KEYS):
        out.append(f"  [x |-> {_tup(txt)}, k |-> {_tup(k)}]" + ("," if i + 1 < len(KEYS) else "") + f"    \\* {_show(txt)}")
    print("\n".join(out))
    print(">>")
    print("\\* ---- end of generated block ----")


if __name__ == "__main__":
    if sys.argv[1] == "gen":
        _gen()
