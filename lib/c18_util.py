"""Helpers of the C18 check: Jsonnet source for one case of spec/MC_Strings.tla and
comparison of the manifested result with the specification's result record."""
import json


def cps(seq):
    return "".join(chr(c) for c in seq)


def str_lit(text, r):
    """A Jsonnet string literal for `text`; the spelling (quote kind, raw UTF-8 or
    \\u escapes with surrogate pairs) is drawn from r."""
    style = r.randrange(4)
    if style == 3 and all(0x20 <= ord(ch) < 0x7F or ord(ch) > 0x9F for ch in text):
        return '@"' + text.replace('"', '""') + '"'          # verbatim string
    quote = "'" if style == 1 else '"'
    out = [quote]
    for ch in text:
        o = ord(ch)
        if ch == quote or ch == "\\":
            out.append("\\" + ch)
        elif o < 0x20 or 0x7F <= o <= 0x9F or o in (0x2028, 0x2029) or (style == 2 and o > 0x7E):
            if o > 0xFFFF:
                v = o - 0x10000
                out.append("\\u%04x\\u%04x" % (0xD800 + (v >> 10), 0xDC00 + (v & 0x3FF)))
            else:
                out.append("\\u%04x" % o)
        else:
            out.append(ch)
    out.append(quote)
    return "".join(out)


def num_arg(a):
    k = a["k"]
    if k == "int":
        return str(a["n"]) if a["n"] >= 0 else "(%d)" % a["n"]
    if k == "half":
        return "0.5"
    if k == "huge":
        return "1e20"
    raise ValueError(k)


FMT = {  # op -> (format string with {n}, how the value is passed)
    "fmtArr": ('"é%{n}s𝄞|" % [{s}]'),
    "fmtBare": ('"é%{n}s𝄞|" % {s}'),
    "fmtLeft": ('"é%-{n}s𝄞|" % [{s}]'),
    "fmtStar": ('std.format("é%*s𝄞|", [{n}, {s}])'),
    "fmtObj": ('"é%(k){n}s𝄞|" % {{k: {s}}}'),
    "fmtObjLeft": ('"é%(k)-{n}s𝄞|" % {{k: {s}}}'),
}

SIMPLE = {  # op -> expression over S, P, Q, A, B
    "length": "std.length({S})",
    "stringChars": "std.stringChars({S})",
    "reverse": "std.reverse(std.stringChars({S}))",
    "reverseJoin": 'std.join("", std.reverse(std.stringChars({S})))',
    "mapDup": "std.map(function(ch) ch + ch, {S})",
    "mapCp": "std.map(function(ch) std.codepoint(ch), {S})",
    "flatMapDup": "std.flatMap(function(ch) ch + ch, {S})",
    "flatMapDrop": 'std.flatMap(function(ch) if ch == "a" then "" else ch + "é", {S})',
    "codepoint": "std.codepoint({S})",
    "char": "std.char({A})",
    "trim": "std.trim({S})",
    "asciiUpper": "std.asciiUpper({S})",
    "asciiLower": "std.asciiLower({S})",
    "index": "{S}[{A}]",
    "substr": "std.substr({S}, {A}, {B})",
    "findSubstr": "std.findSubstr({P}, {S})",
    "startsWith": "std.startsWith({S}, {P})",
    "endsWith": "std.endsWith({S}, {P})",
    "split": "std.split({S}, {P})",
    "joinSplit": "std.join({P}, std.split({S}, {P}))",
    "joinChars": "std.join({P}, std.stringChars({S}))",
    "joinNull": 'std.join({P}, [if ch == "a" then null else ch for ch in std.stringChars({S})])',
    "joinOther": "std.join({Q}, std.split({S}, {P}))",
    "splitLimit": "std.splitLimit({S}, {P}, {A})",
    "splitLimitR": "std.splitLimitR({S}, {P}, {A})",
    "stripChars": "std.stripChars({S}, {P})",
    "lstripChars": "std.lstripChars({S}, {P})",
    "rstripChars": "std.rstripChars({S}, {P})",
    "strReplace": "std.strReplace({S}, {P}, {Q})",
}


def source(c, r):
    """Jsonnet program computing case c (a decoded CASE record of MC_Strings)."""
    op = c["op"]
    s_lit = str_lit(cps(c["s"]), r)
    pre = ""
    if r.random() < 0.5:            # the subject string through a local or written in place
        pre = "local s = %s; " % s_lit
        s_lit = "s"
    if op == "slice":
        parts = [None if c[x]["k"] == "none" else num_arg(c[x]) for x in ("a", "b", "c")]
        if r.random() < 0.25:
            body = "std.slice(%s, %s)" % (s_lit, ", ".join("null" if x is None else x for x in parts))
        else:
            a, b, st = [("" if x is None else x) for x in parts]
            if parts[2] is None and r.random() < 0.5:
                body = "%s[%s:%s]" % (s_lit, a, b)
            else:
                body = "%s[%s:%s:%s]" % (s_lit, a, b, st)
            if r.random() < 0.5:
                body = body.replace("::", ": :")  # `::` lexes as one token; both spellings are slices
        return pre + body
    if op in FMT:
        return pre + FMT[op].format(n=c["a"]["n"], s=s_lit)
    args = {"S": s_lit}
    tmpl = SIMPLE[op]
    if "{P}" in tmpl:
        args["P"] = str_lit(cps(c["p"]), r)
    if "{Q}" in tmpl:
        args["Q"] = str_lit(cps(c["q"]), r)
    if "{A}" in tmpl:
        args["A"] = num_arg(c["a"])
    if "{B}" in tmpl:
        args["B"] = num_arg(c["b"])
    return pre + tmpl.format(**args)


def manifest_mode(exp):
    return "string" if exp["r"] == "str" else "single"


def expected_value(exp):
    """The Python value the manifested result must equal (for r not in error/outside)."""
    k = exp["r"]
    if k == "str":
        return cps(exp["v"])
    if k == "strs":
        return [cps(x) for x in exp["v"]]
    if k in ("nums", "num", "bool"):
        return exp["v"]
    raise ValueError(k)


def same(got, want):
    """Structural equality that keeps booleans and numbers apart."""
    if isinstance(want, bool) or isinstance(got, bool):
        return isinstance(want, bool) and isinstance(got, bool) and got == want
    if isinstance(want, list):
        return isinstance(got, list) and len(got) == len(want) and all(same(g, w) for g, w in zip(got, want))
    if isinstance(want, str):
        return isinstance(got, str) and got == want
    if isinstance(want, int):
        return isinstance(got, (int, float)) and got == want
    return False


def observed_value(exp, res):
    """Decodes an {"ok": ...} harness result according to the manifest mode used."""
    ok = res["ok"]
    if exp["r"] == "str":
        return ok if isinstance(ok, str) else {"not_a_string": ok}
    return json.loads(ok)


def matches(exp, res):
    return same(observed_value(exp, res), expected_value(exp))


def show(v):
    """Unambiguous rendering of a result for messages (code points visible)."""
    return json.dumps(v, ensure_ascii=True)
