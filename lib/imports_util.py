"""Binding of spec/Imports.tla scenarios to the real rsjsonnet binary (property C13).

A scenario (one CASE line of MC_Imports) carries the modelled file system, the -J list,
the path of the main file, the code-file options (--ext-code-file / --tla-code-file) and
what the specification says must happen.  This module materialises the tree, runs the
binary and compares.

Path convention of the specification: a path is a list of components; the component
"/" in first position marks an absolute path and stands for the root of the tree."""
import json
import os
import re
import shutil
import subprocess

KW = {"import": "import", "str": "importstr", "bin": "importbin"}


def render_path(comps, root):
    if comps and comps[0] == "/":
        return "/".join([root] + list(comps[1:]))
    return "/".join(comps)


def norm_path(s):
    """`.` components and repeated separators are not significant when paths are compared."""
    parts = s.split("/")
    out = [p for p in parts if p not in ("", ".")]
    return ("/" if s.startswith("/") else "") + "/".join(out)


def as_map(lst):
    return {tuple(x["p"]): x["v"] for x in lst}


OPT_FLAG = {"ext": "--ext-code-file", "tla": "--tla-code-file"}


def stmt_expr(st, root):
    if st["kind"] == "ext":        # the value bound by --ext-code-file <name>=...
        e = f'std.extVar({json.dumps(st["sp"][0])})'
    elif st["kind"] == "tla":      # the value bound by --tla-code-file <name>=...: a parameter
        e = st["sp"][0]
    else:
        e = f'{KW[st["kind"]]} {json.dumps(render_path(st["sp"], root))}'
    if st["chain"]:
        e = "(" + e + ")" + ".lazy" * st["chain"]
    return e


def code_text(entry, root, params=()):
    """Text of a generated library file and the line of each of its import statements.

    The body prints TRACE: T<tag> exactly once per evaluation of the file; `eager` is
    visible (forced by manifestation), `lazy` hidden (forced only by `.lazy`); a strict
    file forces every eager import before it yields its value.  `params`: the main file
    of a run with top-level arguments is a function of them with the same body."""
    lines = [f"function({', '.join(params)})"] if params else []
    lines.append("local e = [")
    where = {}
    for i, st in enumerate(entry["eager"]):
        lines.append("  " + stmt_expr(st, root) + ",")
        where[i + 1] = len(lines)
    lines.append("];")
    if entry["strict"]:
        lines.append('assert std.all([std.type(x) != "null" for x in e]);')
    tag = f"T{entry['tag']}"
    lines.append(f'std.trace("{tag}", {{')
    lines.append(f'  tag: "{tag}", thisFile: std.thisFile, eager: e,')
    if entry["lazy"]:
        lines.append("  lazy:: " + stmt_expr(entry["lazy"][0], root) + ",")
        where[0] = len(lines)
    lines.append("})")
    return "\n".join(lines) + "\n", where


class Tree:
    def __init__(self, case, root):
        self.case = case
        self.root = root
        self.fs = as_map(case["fs"])
        self.opts = case.get("opts", [])
        self.texts = {}
        self.where = {}

    def build(self):
        root = self.root
        shutil.rmtree(root, ignore_errors=True)
        os.makedirs(root)
        items = sorted(self.fs.items(), key=lambda kv: (len(kv[0]), kv[0]))
        for p, e in items:
            if e["t"] == "dir" and p:
                os.makedirs(os.path.join(root, *p), exist_ok=True)
        params = [o["var"] for o in self.opts if o["route"] == "tla"]
        for p, e in items:
            full = os.path.join(root, *p)
            if e["t"] == "file":
                if e["code"]:
                    text, where = code_text(e, root, params if p == self.main_node() else ())
                    self.texts[p] = text
                    self.where[p] = where
                    data = text.encode("ascii")
                else:
                    data = bytes(e["bytes"])
                with open(full, "wb") as f:
                    f.write(data)
            elif e["t"] == "link":
                os.symlink(render_path(e["target"], root), full)

    def command(self, binary):
        cmd = [binary]
        for j in self.case["jp"]:
            cmd += ["-J", render_path(j, self.root)]
        for o in self.opts:
            cmd += [OPT_FLAG[o["route"]], o["var"] + "=" + render_path(o["path"], self.root)]
        if self.virtual():
            # family "virt": the text of the main file is the program, given with -e (odd tags) or on
            # standard input (even tags); the file itself stays in the tree but is not named
            if self.stdin_variant():
                cmd.append("-")
            else:
                cmd += ["-e", self.texts[self.main_node()]]
        else:
            cmd.append(render_path(self.case["main"], self.root))
        return cmd

    def virtual(self):
        return self.case.get("fam") == "virt"

    def stdin_variant(self):
        # decided by the scenario (not by chance): half of the scenarios go through standard input
        return self.virtual() and (len(self.case["jp"]) + len(self.case["fs"])) % 2 == 0

    def run(self, binary, timeout=60):
        env = dict(os.environ)
        env["NO_COLOR"] = "1"
        try:
            p = subprocess.run(self.command(binary), cwd=self.root, env=env, capture_output=True,
                               timeout=timeout,
                               input=(self.texts[self.main_node()].encode("ascii") if self.stdin_variant() else None),
                               stdin=(None if self.stdin_variant() else subprocess.DEVNULL))
        except subprocess.TimeoutExpired:
            return {"timeout": True, "rc": None, "stdout": "", "stderr": ""}
        return {"rc": p.returncode, "stdout": p.stdout.decode("utf-8", "replace"),
                "stderr": p.stderr.decode("utf-8", "replace")}

    def cleanup(self):
        shutil.rmtree(self.root, ignore_errors=True)

    # -- what the specification expects ---------------------------------------
    def main_node(self):
        main = self.case["main"]
        return tuple(main[1:] if main and main[0] == "/" else main)

    def item(self, it, res, this_file, depth=0):
        t = it["t"]
        node = tuple(it["file"])
        if t == "val":
            return self.value(node, res, this_file, depth + 1)
        if t == "text":
            return self.texts[node]
        if t == "textbytes":
            return list(self.texts[node].encode("ascii"))
        if t == "str":
            return "".join(chr(c) for c in it["data"])
        if t == "bin":
            return list(it["data"])
        raise ValueError(t)

    def shown_this_file(self, node, this_file):
        tf = this_file[node]
        if self.virtual() and node == self.main_node() and list(tf) == ["<cmdline>"]:
            return "<stdin>" if self.stdin_variant() else "<cmdline>"
        return norm_path(render_path(tf, self.root))

    def value(self, node, res, this_file, depth=0):
        if depth > 50:
            raise ValueError("cyclic expected value")
        return {"tag": f"T{self.fs[node]['tag']}",
                "thisFile": self.shown_this_file(node, this_file),
                "eager": [self.item(x, res, this_file, depth) for x in res[node]]}

    def expected_value(self):
        return self.value(self.main_node(), as_map(self.case["res"]), as_map(self.case["thisFile"]))


def norm_this_file(v):
    if isinstance(v, dict):
        return {k: (norm_path(x) if k == "thisFile" and isinstance(x, str) else norm_this_file(x))
                for k, x in v.items()}
    if isinstance(v, list):
        return [norm_this_file(x) for x in v]
    return v


TRACE_RE = re.compile(r"^TRACE: T(\d+)$", re.M)
SITE_RE = re.compile(r"^\s*--> (.*):(\d+):(\d+)\s*$", re.M)


def is_crash(out):
    if out.get("timeout"):
        return "timeout"
    rc = out["rc"]
    if rc < 0 or rc >= 128:
        return f"killed by signal (rc={rc})"
    if rc == 101 or "panicked at" in out["stderr"]:
        return "panic: " + out["stderr"][-300:]
    return None


def first_diff(a, b, path="$"):
    if type(a) is not type(b):
        return f"{path}: {json.dumps(a)[:120]} vs {json.dumps(b)[:120]}"
    if isinstance(a, dict):
        for k in sorted(set(a) | set(b)):
            if k not in a or k not in b:
                return f"{path}.{k}: present on one side only"
            d = first_diff(a[k], b[k], f"{path}.{k}")
            if d:
                return d
        return None
    if isinstance(a, list):
        if len(a) != len(b):
            return f"{path}: length {len(a)} vs {len(b)}"
        for i, (x, y) in enumerate(zip(a, b)):
            d = first_diff(x, y, f"{path}[{i}]")
            if d:
                return d
        return None
    return None if a == b else f"{path}: {json.dumps(a)[:120]} vs {json.dumps(b)[:120]}"


def compare(tree, out):
    """Returns a list of (class, text) disagreements between the run and the specification."""
    case = tree.case
    fs = tree.fs
    bad = []
    crash = is_crash(out)
    if crash:
        return [("crash", crash)]
    traces = {}
    for m in TRACE_RE.finditer(out["stderr"]):
        traces[int(m.group(1))] = traces.get(int(m.group(1)), 0) + 1
    loads = {fs[tuple(x["p"])]["tag"]: x["v"] for x in case["loads"]}
    if case["status"] == "ok":
        if out["rc"] != 0:
            return [("unexpected-failure",
                     f"exit {out['rc']} but the specification resolves every import; stderr: {out['stderr'][:300]}")]
        try:
            got = norm_this_file(json.loads(out["stdout"]))
        except Exception as e:
            return [("bad-output", f"stdout is not JSON: {e}")]
        exp = tree.expected_value()
        d = first_diff(exp, got)
        if d:
            cls = "wrong-value"
            if ".thisFile" in d:
                cls = "wrong-thisFile"
            elif ".tag" in d:
                cls = "wrong-file-picked"
            bad.append((cls, f"value differs (specification vs implementation) at {d}"))
        for tag in sorted(set(loads) | set(traces)):
            if traces.get(tag, 0) != loads.get(tag, 0):
                bad.append(("load-count", f"file tagged T{tag} evaluated {traces.get(tag, 0)} time(s), "
                                          f"specification says {loads.get(tag, 0)}"))
        return bad
    # error expected
    if out["rc"] == 0:
        return [("missing-error", f"exit 0 with output {out['stdout'][:200]!r} but the specification says "
                                  f"error ({case['err']['class']}) at import {'/'.join(case['err']['sp'])}")]
    if out["rc"] != 1:
        bad.append(("wrong-exit", f"exit status {out['rc']}, expected 1"))
    if out["stdout"] != "":
        bad.append(("stdout-on-error", f"stdout not empty on failure: {out['stdout'][:200]!r}"))
    if out["stderr"].strip() == "":
        bad.append(("silent-error", "nothing on stderr"))
    for tag, n in traces.items():
        if n > 1 or loads.get(tag, 0) == 0:
            bad.append(("load-count", f"file tagged T{tag} evaluated {n} time(s) before the failure, "
                                      f"specification says at most {loads.get(tag, 0)}"))
    err = case["err"]
    if err["class"] in ("notfound", "isdir") and not err["file"]:
        # a code-file option that names no readable file: reported before anything runs,
        # naming the path as it was spelled; there is no source location to point at
        spelled = render_path(err["sp"], tree.root)
        if spelled not in out["stderr"]:
            bad.append(("error-not-naming-option", f"stderr does not mention the code file {spelled!r}: "
                                                   f"{out['stderr'][:300]}"))
        sites = SITE_RE.findall(out["stderr"])
        if sites:
            bad.append(("error-not-before-run", f"a source location {sites[0]} is reported although the "
                                                f"failure precedes any evaluation"))
    elif err["class"] in ("notfound", "isdir"):
        spelled = render_path(err["sp"], tree.root)
        if spelled not in out["stderr"]:
            bad.append(("error-not-naming-import", f"stderr does not mention the imported path {spelled!r}: "
                                                   f"{out['stderr'][:300]}"))
        owner = tuple(err["file"])
        this_file = as_map(case["thisFile"])
        want = (tree.shown_this_file(owner, this_file), tree.where[owner][err["slot"]])
        # TRACE notes printed earlier carry locations too: look from the first error line on
        m0 = re.search(r"^error", out["stderr"], re.M)
        tail = out["stderr"][m0.start():] if m0 else ""
        sites = [(norm_path(m.group(1)), int(m.group(2))) for m in SITE_RE.finditer(tail)]
        if not sites or sites[0] != want:
            bad.append(("error-not-at-import-site",
                        f"first reported location {sites[0] if sites else None}, import site is {want}"))
    return bad


def merge_content(cases):
    """Several single-data-file scenarios -> one tree that holds all the files (independent
    files, one process): main imports every d<i>.bin as text and as bytes, in order."""
    fs = {}
    eager, res = [], []
    main_node = None
    for i, c in enumerate(cases):
        m = as_map(c["fs"])
        r = as_map(c["res"])
        for p, e in m.items():
            if e["t"] == "file" and not e["code"]:
                np_ = p[:-1] + (f"d{i}.bin",)
                fs[np_] = e
                ren = {p: np_}
            elif e["t"] == "file":
                main_node = p
            else:
                fs[p] = e
        for st in m[main_node]["eager"]:
            eager.append(dict(st, sp=st["sp"][:-1] + [f"d{i}.bin"]))
        for it in r[main_node]:
            res.append(dict(it, file=list(ren.get(tuple(it["file"]), tuple(it["file"])))))
    c0 = cases[0]
    m0 = as_map(c0["fs"])
    fs[main_node] = dict(m0[main_node], eager=eager)
    return dict(c0, fs=[{"p": list(p), "v": e} for p, e in fs.items()],
                res=[{"p": list(main_node), "v": res}], members=len(cases))
