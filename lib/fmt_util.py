"""Helpers of the C19 check (std.format / %): ropes, Jsonnet programs, the Python `%`
cross-validation of spec/Fmt.tla and the value-and-shape invariants for results the
specification does not fix digit by digit (g G, magnitudes >= 2^53)."""
import re
import sys
from fractions import Fraction

import render

sys.set_int_max_str_digits(0)      # results with 70000 digits are parsed back


def rope_str(rope):
    """A rope from MC_Fmt (list of [code points, repetitions]) as a Python string."""
    return "".join("".join(map(chr, c)) * n for c, n in rope)


def rope_len(rope):
    return sum(len(c) * n for c, n in rope)


def cps(s):
    return "".join(map(chr, s))


def frac(v):
    return v["s"] * Fraction(v["m"]) * Fraction(2) ** v["e"]


def programs(fmt_v, vals_v):
    """The two surface forms of one case."""
    f = render.value_expr(fmt_v)
    v = render.value_expr(vals_v)
    return [("std.format", f"std.format({f}, {v})"), ("%", f"{f} % {v}")]


def short(s, n=160):
    if len(s) <= n:
        return repr(s)
    return repr(s[:n // 2]) + f"...<{len(s)} chars>..." + repr(s[-n // 2:])


# ---------------------------------------------------------------------------
# Python's % operator as a second opinion on the specification

_DIR = re.compile(r"%(?:\((?P<key>[^)]*)\))?(?P<flags>[#0\- +]*)(?P<w>\*|\d+)?(?:\.(?P<p>\*|\d*))?(?P<lm>[hlL])?(?P<conv>.)",
                  re.S)


class _Func:
    pass


def _py(v, top=False):
    t = v["t"]
    if t == "null":
        return None
    if t == "bool":
        return v["b"]
    if t == "num":
        f = frac(v)
        return int(f) if f.denominator == 1 else float(f)
    if t == "str":
        return cps(v["c"])
    if t == "arr":
        items = [_py(x) for x in v["a"]]
        return tuple(items) if top else items
    if t == "obj":
        return {cps(f["k"]): _py(f["v"]) for f in v["f"]}
    return _Func()


def _scan(fmt):
    """Directives of a format string as Python's own grammar sees them, or None."""
    out, i = [], 0
    while True:
        j = fmt.find("%", i)
        if j < 0:
            return out
        m = _DIR.match(fmt, j)
        if not m:
            return None
        out.append(m)
        i = m.end()


def python_opinion(fmt_v, vals_v):
    """('ok', string) / ('err',) where Python's % and Jsonnet's std.format follow the same
    convention for this format and these values; None where they do not (not compared)."""
    if fmt_v["t"] != "str":
        return None
    fmt = cps(fmt_v["c"])
    dirs = _scan(fmt)
    pyvals = _py(vals_v, top=True)
    is_dict = isinstance(pyvals, dict)
    if dirs is not None:
        args = list(pyvals) if isinstance(pyvals, tuple) else None if is_dict else [pyvals]
        j = 0
        for m in dirs:
            conv = m.group("conv")
            if conv in "ra":                       # Python-only conversions
                return None
            if conv not in "diuoxXeEfFgGcs%":
                break                               # both reject it; what follows does not matter
            plain_pct = conv == "%" and m.group(0) == "%%"
            if conv == "%" and not plain_pct:
                return None                         # Python ignores flags/width of %%, Jsonnet pads
            if m.group("key") is not None and not is_dict:
                return None                         # Jsonnet ignores the key, Python wants a mapping
            if is_dict:
                if m.group("key") is None and conv != "%":
                    return None                     # Python would print the dict itself
                if m.group("w") == "*" or m.group("p") == "*":
                    return None
                val = pyvals.get(m.group("key")) if conv != "%" else None
                have = conv == "%" or m.group("key") in pyvals
                star_p = None
            else:
                star_p = None
                for g in ("w", "p"):
                    if m.group(g) == "*":
                        if j < len(args):
                            a = args[j]
                            if isinstance(a, bool) or isinstance(a, float):
                                return None
                            if isinstance(a, int) and a < 0:
                                return None
                            if g == "p":
                                star_p = a
                        j += 1
                have = conv == "%" or j < len(args)
                val = args[j] if (conv != "%" and j < len(args)) else None
                if conv != "%":
                    j += 1
            if not have:
                continue
            if isinstance(val, bool) and conv != "s":
                return None                         # Python: bool is an int
            if conv == "s":
                if not isinstance(val, str):
                    return None                     # str() vs std.toString
                p = m.group("p")
                if p is not None:
                    pv = star_p if p == "*" else int(p or "0")
                    if not isinstance(pv, int) or pv < len(val):
                        return None                 # Jsonnet does not truncate
            elif conv == "c":
                if isinstance(val, float):
                    return None
                if isinstance(val, int) and 0xD800 <= val <= 0xDFFF:
                    return None
            elif conv in "oxX":
                if isinstance(val, float):
                    return None                     # Python rejects floats; Jsonnet truncates
                if conv == "o" and "#" in m.group("flags"):
                    return None                     # 0o10 vs 010
    try:
        return ("ok", fmt % pyvals)
    except (TypeError, ValueError, OverflowError, KeyError):
        return ("err",)


# ---------------------------------------------------------------------------
# value-and-shape invariants

def _floor_log10(x):
    """floor(log10(x)) for a positive Fraction, exactly."""
    e = len(str(x.numerator)) - len(str(x.denominator))
    while Fraction(10) ** e > x:
        e -= 1
    while Fraction(10) ** (e + 1) <= x:
        e += 1
    return e


def _round_sig_exp(x, p):
    """Decimal exponent of positive x after rounding half-even to p significant digits."""
    e = _floor_log10(x)
    scaled = x / Fraction(10) ** (e - p + 1)
    n = scaled.numerator // scaled.denominator
    r = scaled - n
    if r > Fraction(1, 2) or (r == Fraction(1, 2) and n % 2 == 1):
        n += 1
    return e + 1 if n >= 10 ** p else e


def shape_problem(meta, actual):
    """None if `actual` satisfies the invariants of a 'shape' result, else a description."""
    conv = chr(meta["conv"])
    v = frac(meta["v"])
    fw, prec = meta["fw"], meta["prec"]
    if len(actual) < fw:
        return f"field of {len(actual)} characters is shorter than the width {fw}"
    if meta["left"]:
        t = actual.rstrip(" ")
        if actual.startswith(" ") and not (meta["blank"] and not meta["plus"] and v >= 0):
            return "left-justified field starts with padding"
    else:
        t = actual
        if actual.endswith(" "):
            return "right-justified field ends with padding"
    lead = len(t) - len(t.lstrip(" "))
    t = t.lstrip(" ")
    want_sign = "-" if v < 0 else "+" if meta["plus"] else " " if meta["blank"] else ""
    if want_sign == " ":
        if lead < 1:
            return "space flag: no space before a non-negative number"
        lead -= 1
    elif want_sign:
        if not t.startswith(want_sign):
            return f"sign {want_sign!r} missing"
        t = t[1:]
    elif t[:1] in "+-":
        return "unexpected sign"
    if meta["zero"] and not meta["left"] and lead > 0:
        return "0 flag: padded with spaces"
    unpadded = len(want_sign) + len(t)
    if not (meta["zero"] and not meta["left"]) and len(actual) != max(fw, unpadded):
        return "field longer than both width and text"
    if conv in "xX" and meta["alt"]:
        if not t.startswith("0x" if conv == "x" else "0X"):
            return "# flag: 0x prefix missing"
        t = t[2:]
    if meta["zero"] and not meta["left"]:
        t = re.sub(r"^0+(?=\d)", "", t)            # the zeros of the 0 flag
    if conv in "diuoxX":
        radix = {"o": 8, "x": 16, "X": 16}.get(conv, 10)
        digits = "0123456789abcdef"[:radix] if conv != "X" else "0123456789ABCDEF"
        if not t or any(ch not in digits for ch in t):
            return f"not a base-{radix} numeral: {short(t)}"
        if prec >= 0 and len(t) < prec and not (meta["zero"] and not meta["left"]):
            return "fewer digits than the precision"
        got = Fraction(int(t, radix))
        want = abs(v).numerator // abs(v).denominator
        # the numeral has to denote the value: read as a number it must be the same double
        # (its digits beyond the 53 significant bits are not fixed by the property)
        if float(got) != float(want):
            return "numeral does not denote the value (it reads back as %r, the value is %r)" % (float(got), float(want))
        return None
    m = re.fullmatch(r"(\d+)(\.(\d*))?(?:([eE])([-+])(\d{2,}))?", t)
    if not m:
        return f"not a decimal numeral: {short(t)}"
    if m.group(4) and m.group(4) != ("E" if conv.isupper() else "e"):
        return "exponent letter has the wrong case"
    got = Fraction(m.group(1) + (m.group(3) or "")) / Fraction(10) ** len(m.group(3) or "")
    if m.group(4):
        got *= Fraction(10) ** int(m.group(5) + m.group(6))
    av = abs(v)
    if conv in "fF":
        p = 6 if prec == -2 else prec
        if m.group(4) or len(m.group(3) or "") != p or (bool(m.group(2)) != (p > 0 or meta["alt"])):
            return "not in %f form with the requested number of decimals"
        tol = max(av * Fraction(1, 2 ** 50), Fraction(1, 10 ** p))
    elif conv in "eE":
        p = 6 if prec == -2 else prec
        if not m.group(4) or len(m.group(1)) != 1 or len(m.group(3) or "") != p:
            return "not in %e form with the requested number of decimals"
        x = _floor_log10(av) if av else 0
        tol = max(av * Fraction(1, 2 ** 50), Fraction(10) ** (x - p))
    else:
        p = 6 if prec == -2 else prec
        x = _floor_log10(av) if av else 0
        xr = _round_sig_exp(av, p) if av else 0
        is_exp = bool(m.group(4))
        want_exp = {(e < -4 or e >= p) for e in (x, xr)}
        if len(want_exp) == 1 and is_exp != want_exp.pop():
            return f"exponent form used wrongly (decimal exponent {x}, precision {p})"
        mant = m.group(1) + (m.group(2) or "")
        if meta["alt"]:
            if "." not in mant:
                return "# flag: no decimal point"
        elif "." in mant and mant[-1] in "0.":
            return "trailing zeros or point without the # flag"
        unit = Fraction(10) ** ((x if is_exp else max(x, 0)) - p + 1)
        tol = max(av * Fraction(1, 2 ** 50), unit)
    if abs(got - av) > tol:
        return f"numeral {short(t)} is not the value within the precision"
    return None
