"""The repository's own test programs, used as additional drivers."""
import os

UI = "/repo/ui-tests"


def ui_programs(subdirs=("pass", "fail", "sanity"), plain_only=True):
    """(relative path, bytes) of ui-test programs; plain_only skips programs that
    need command-line arguments or the file system (imports)."""
    out = []
    for sub in subdirs:
        base = os.path.join(UI, sub)
        for dp, _, fns in os.walk(base):
            for fn in sorted(fns):
                if not fn.endswith(".jsonnet"):
                    continue
                p = os.path.join(dp, fn)
                with open(p, "rb") as f:
                    data = f.read()
                if plain_only and (b"//@" in data or b"import" in data):
                    continue
                out.append((os.path.relpath(p, UI), data))
    out.sort()
    return out
