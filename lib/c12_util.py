"""C12: turning a configuration of spec/Cli.tla into one concrete run of the real binary.

A CASE of MC_Cli is abstract (input kind, mode, program class, abstract ext/TLA
arguments, fault).  `concretise` chooses the concrete spelling (flag forms,
argument order, file names, environment) from a seeded generator and describes
the scratch directory; `execute` builds the directory, runs the binary and
observes exit status, stdout, stderr and the files that were created or changed.
"""
import json
import os
import shutil
import subprocess

PROGRAMS = {
    # class -> Jsonnet text; PX is the payload expression ("p" or std.extVar("x"))
    "str": "PX",
    "arr0": "[]",
    "arr2": "[1, PX]",
    "obj0": "{}",
    "objMixed": '{ a: PX, b: 1, h:: error "never" }',
    "objS": '{ a: "s", b: PX, h:: error "never" }',
    "num": "1 - 3.5",
    "nested": "{ a: [null, true, { c: PX }], b: {}, e: [] }",
    "rterr": 'error "boom"',
    "synerr": "[1,",
    "staticerr": "[1, nosuchvar]",
    "arrErr2": '[1, error "boom"]',
    "objErr2": '{ a: PX, b: error "boom" }',
    "funcReq": 'function(x, y="d", z="u") x + "/" + y',
    "funcDef": 'function(x="p", y="d", z="u") x + "/" + y',
    "funcObj": 'function(x, y="d", z="u") { a: x, b: y, h:: error "never" }',
}

MDIR = "out"
OFILE = "o.txt"
INPUT = "in.jsonnet"

SHORT = {"ext-str": "-V", "tla-str": "-A", "max-stack": "-s", "max-trace": "-t"}


def text(cps):
    return "".join(chr(c) for c in cps)


def program_text(prog, use, r):
    px = 'std.extVar("x")' if use else '"p"'
    src = PROGRAMS[prog].replace("PX", px)
    if prog not in ("synerr",):
        v = r.randrange(4)
        if v == 1:
            src = "/* c */ " + src
        elif v == 2:
            src = src + "  # tail"
        elif v == 3:
            src = "\n" + src + "\n"
    return src


def jstr(s):
    return json.dumps(s, ensure_ascii=False)


def code_text(a, r):
    if a["code"] == "concat":
        s = text(a["s"])
        k = r.randrange(len(s) + 1)
        return jstr(s[:k]) + " + " + jstr(s[k:])
    if a["code"] == "fail":
        return 'error "boom"'
    if a["code"] == "syntax":
        return "1 +"
    raise ValueError(a)


def opt(flag, value, r, allow_short=True):
    """One option with a value: `--flag value`, `--flag=value` or the short form."""
    forms = [["--" + flag, value], ["--" + flag + "=" + value]]
    if allow_short and flag in SHORT:
        forms.append([SHORT[flag], value])
    return r.choice(forms)


def concretise(c, r):
    """c: a CASE record (configuration part).  Returns the concrete run description."""
    files = {}        # relative path -> bytes (created before the run)
    dirs = []         # directories created before the run
    links = {}        # symlink -> target
    env = {}
    groups = []       # option groups, shuffled below

    src = program_text(c["prog"], c["use"], r)
    stdin = None
    if c["input"] == "exec":
        groups.append([r.choice(["-e", "--exec"])])
        positional = src
    elif c["input"] == "stdin":
        positional = "-"
        stdin = src
    else:
        positional = INPUT
        if c["fault"] == "input_missing":
            pass
        elif c["fault"] == "input_is_dir":
            dirs.append(INPUT)
        elif c["fault"] == "input_dangling":
            links[INPUT] = "nowhere.jsonnet"
        else:
            files[INPUT] = src.encode()

    m = c["mode"]
    if m in ("S", "Sy", "mS"):
        groups.append([r.choice(["-S", "--string"])])
    if m in ("y", "Sy"):
        groups.append([r.choice(["-y", "--yaml-stream"])])
    if m in ("m", "mS"):
        groups.append(r.choice([["-m", MDIR], ["--multi", MDIR], ["--multi=" + MDIR]]))
        if c["fault"] == "mdir_missing":
            pass
        elif c["fault"] == "mdir_is_file":
            files[MDIR] = b"not a directory\n"
        else:
            dirs.append(MDIR)
    if c["out"]:
        path = OFILE
        if c["fault"] == "out_missing_dir":
            path = "nodir/" + OFILE
        elif c["fault"] == "out_is_dir":
            path = "odir"
            dirs.append("odir")
        elif r.randrange(2) == 1:
            # the -o file may exist already: it must be replaced on success and left alone on failure
            files[OFILE] = b"previous content\n"
        groups.append(r.choice([["-o", path], ["--output-file", path], ["--output-file=" + path]]))
    if c["ntn"]:
        groups.append(["--no-trailing-newline"])

    for a in c["args"]:
        f, n, srck = a["f"], a["n"], a["src"]
        if f == "unknown":
            groups.append(["--frobnicate"])
            continue
        if f in ("max-stack", "max-trace"):
            # the contract (exit status, streams) does not depend on how many trace items are shown
            good = "300" if f == "max-stack" else r.choice(["0", "0", "1", "2", "7"])
            bad = "abc" if f == "max-stack" else "x"
            groups.append(opt(f, good if srck == "ok" else bad, r))
            continue
        is_code = "code" in f
        if srck == "inline":
            val = n + "=" + (code_text(a, r) if is_code else text(a["s"]))
        elif srck == "env":
            val = n
            env[n] = code_text(a, r) if is_code else text(a["s"])
        elif srck == "envunset":
            val = n
        elif srck == "file":
            fn = f"{n}_{f.replace('-', '_')}.txt"
            files[fn] = (code_text(a, r) if is_code else text(a["s"])).encode()
            val = n + "=" + fn
        elif srck == "nofile":
            val = n + "=missing.txt"
        elif srck == "badutf8":
            fn = f"{n}_bad.txt"
            files[fn] = b"ok \xff\xfe not utf-8\n"
            val = n + "=" + fn
        elif srck == "malformed":
            val = n
        else:
            raise ValueError(a)
        groups.append(opt(f, val, r))

    r.shuffle(groups)
    pos = r.randrange(len(groups) + 1)
    argv = []
    for i, g in enumerate(groups):
        if i == pos:
            argv.append(positional)
        argv.extend(g)
    if pos == len(groups):
        argv.append(positional)

    stdout_mode = "pipe"
    if c["fault"] == "stdout_full":
        stdout_mode = "full"
    elif c["fault"] == "stdout_closed":
        stdout_mode = "closed"
    return {
        "argv": argv, "env": env, "stdin": stdin,
        "stdin_closed": c["fault"] == "stdin_closed",
        "stdout_mode": stdout_mode,
        "files": {k: enc_bytes(v) for k, v in files.items()},
        "dirs": dirs, "links": links,
    }


def enc_bytes(b):
    try:
        return {"text": b.decode("utf-8")}
    except UnicodeDecodeError:
        return {"hex": b.hex()}


def dec_bytes(d):
    return d["text"].encode("utf-8") if "text" in d else bytes.fromhex(d["hex"])


def snapshot(root):
    """relative path -> bytes for regular files, '<dir>' / '<link>' markers otherwise."""
    snap = {}
    for dp, dns, fns in os.walk(root):
        for n in dns + fns:
            p = os.path.join(dp, n)
            rel = os.path.relpath(p, root)
            if os.path.islink(p):
                snap[rel] = ("link", os.readlink(p))
            elif os.path.isdir(p):
                snap[rel] = ("dir", None)
            else:
                with open(p, "rb") as f:
                    snap[rel] = ("file", f.read())
    return snap


def execute(binary, run, scratch, timeout=60):
    """Builds the scratch directory, runs the binary, returns the observation."""
    shutil.rmtree(scratch, ignore_errors=True)
    os.makedirs(scratch)
    for d in run["dirs"]:
        os.makedirs(os.path.join(scratch, d))
    for p, b in run["files"].items():
        with open(os.path.join(scratch, p), "wb") as f:
            f.write(dec_bytes(b))
    for p, t in run["links"].items():
        os.symlink(t, os.path.join(scratch, p))
    before = snapshot(scratch)

    env = {"PATH": os.environ.get("PATH", "/usr/bin:/bin"), "HOME": scratch}
    env.update(run["env"])
    env = {k.encode("utf-8"): v.encode("utf-8") for k, v in env.items()}     # exact bytes, whatever the locale
    cmd = [binary.encode("utf-8")] + [a.encode("utf-8") for a in run["argv"]]
    redir = ""
    if run["stdout_mode"] == "closed":
        redir += " >&-"
    if run["stdin_closed"]:
        redir += " <&-"
    if redir:
        cmd = [b"/bin/sh", b"-c", ('exec "$@"' + redir).encode(), b"sh"] + cmd
    kw = {}
    full = None
    if run["stdout_mode"] == "full":
        full = open("/dev/full", "wb")
        kw["stdout"] = full
    elif run["stdout_mode"] == "closed":
        kw["stdout"] = subprocess.DEVNULL      # replaced by the shell's >&-
    else:
        kw["stdout"] = subprocess.PIPE
    if run["stdin"] is not None and not run["stdin_closed"]:
        kw["input"] = run["stdin"].encode()
    else:
        kw["stdin"] = subprocess.DEVNULL
    obs = {}
    try:
        p = subprocess.run(cmd, cwd=scratch, env=env, stderr=subprocess.PIPE, timeout=timeout, **kw)
        obs["rc"] = p.returncode
        obs["stdout"] = p.stdout if run["stdout_mode"] == "pipe" else None
        obs["stderr"] = p.stderr
    except subprocess.TimeoutExpired:
        obs["timeout"] = True
        obs["rc"] = None
        obs["stdout"] = None
        obs["stderr"] = b""
    finally:
        if full is not None:
            full.close()
    after = snapshot(scratch)
    changed = {}
    for rel, v in after.items():
        if before.get(rel) != v:
            changed[rel] = v
    for rel in before:
        if rel not in after:
            changed[rel] = ("removed", None)
    obs["changed"] = changed
    shutil.rmtree(scratch, ignore_errors=True)
    return obs


def crash_of(obs):
    """A description when the run ended in a way that is never acceptable, else None."""
    if obs.get("timeout"):
        return "timeout"
    if obs["rc"] is not None and obs["rc"] < 0:
        return f"killed by signal {-obs['rc']}"
    if obs["rc"] is not None and obs["rc"] >= 128:
        return f"exit status {obs['rc']} (signal {obs['rc'] - 128}?)"
    if b"panicked at" in (obs["stderr"] or b""):
        return "panic: " + obs["stderr"].decode("utf-8", "replace")[:300]
    return None


def expected_files(exp):
    return {text(f["path"]): text(f["data"]).encode("utf-8") for f in exp["files"]}


def mismatch(obs, exp, stdout_observable):
    """None when the observation is the outcome `exp`, else (class, description)."""
    if obs["rc"] != exp["exit"]:
        return ("exit", f"exit status {obs['rc']}, specification says {exp['exit']} ({exp['why'] or 'success'})")
    if stdout_observable:
        want = text(exp["stdout"]).encode("utf-8")
        if obs["stdout"] != want:
            return ("stdout", f"stdout {obs['stdout']!r}, specification says {want!r}")
    if exp["stderr"] and not obs["stderr"]:
        return ("stderr-empty", f"exit status {obs['rc']} but nothing was explained on stderr")
    want_files = expected_files(exp)
    got_files = {}
    for rel, (kind, data) in obs["changed"].items():
        got_files[rel] = data if kind == "file" else f"<{kind}>".encode()
    if got_files != want_files:
        return ("files", f"files created/changed {summ(got_files)}, specification says {summ(want_files)}")
    return None


def summ(files):
    return {k: (v[:60] if isinstance(v, bytes) else v) for k, v in sorted(files.items())}
