"""Shared machinery for the rsjsonnet verification checks.

 * build the harness / CLI from /repo's current working tree
 * run TLC (model checking, case generation, simulation, trace validation)
 * run cases through the Rust harness with crash/timeout isolation
 * known-findings filter, replay files, evidence files
"""
import hashlib
import json
import os
import re
import shutil
import subprocess
import sys
import time

ROOT = os.path.dirname(os.path.dirname(os.path.abspath(__file__)))
WORK = os.path.join(ROOT, "work")
SPEC = os.path.join(ROOT, "spec")
REPO = "/repo"
HARNESS_DIR = os.path.join(ROOT, "harness")
HARNESS_BIN = os.path.join(WORK, "target-harness", "release", "vharness")
CLI_TARGET = os.path.join(WORK, "target-cli")
CLI_BIN = os.path.join(CLI_TARGET, "debug", "rsjsonnet")
TLA_JAR = "/opt/veriftools/tla/tla2tools.jar"
TLA_DEPS = "/opt/veriftools/tla/CommunityModules-deps.jar"
NCPU = os.cpu_count() or 8


class ToolError(Exception):
    """Something in the machinery (not in the code under test) failed."""


def log(*a):
    print(*a, file=sys.stderr, flush=True)


def workdir(*parts):
    p = os.path.join(WORK, *parts)
    os.makedirs(p, exist_ok=True)
    return p


def cargo_env():
    env = dict(os.environ)
    env["CARGO_NET_OFFLINE"] = "true"
    env.pop("RUSTFLAGS", None)
    return env


def _flock(name):
    import fcntl
    os.makedirs(WORK, exist_ok=True)
    f = open(os.path.join(WORK, name + ".lock"), "w")
    fcntl.flock(f, fcntl.LOCK_EX)
    return f


def build_harness():
    """Builds vharness against /repo's current working tree (hooks on)."""
    lock = _flock("build-harness")
    try:
        t0 = time.time()
        p = subprocess.run(
            ["cargo", "build", "--release", "--offline"],
            cwd=HARNESS_DIR, env=cargo_env(), capture_output=True, text=True)
        if p.returncode != 0:
            raise ToolError("harness build failed:\n" + p.stderr[-4000:])
        log(f"[build] harness ok in {time.time()-t0:.1f}s")
        return HARNESS_BIN
    finally:
        lock.close()


def build_cli():
    """Builds the shipped binary (hooks off) from /repo's current tree."""
    lock = _flock("build-cli")
    try:
        t0 = time.time()
        p = subprocess.run(
            ["cargo", "build", "--offline", "-p", "rsjsonnet",
             "--manifest-path", os.path.join(REPO, "Cargo.toml"),
             "--target-dir", CLI_TARGET],
            cwd=REPO, env=cargo_env(), capture_output=True, text=True)
        if p.returncode != 0:
            raise ToolError("cli build failed:\n" + p.stderr[-4000:])
        log(f"[build] cli ok in {time.time()-t0:.1f}s")
        return CLI_BIN
    finally:
        lock.close()


# ---------------------------------------------------------------------------
# TLC

class TlcResult:
    def __init__(self):
        self.rc = None
        self.generated = 0
        self.distinct = 0
        self.depth = 0
        self.wall = 0.0
        self.out_path = None
        self.coverage = {}       # action name -> (distinct, generated)
        self.error = None        # text of a TLC-reported error (invariant violation...)
        self.cmd = ""

    def lines(self, tag):
        """Yields the decoded payloads of `PrintT(<<tag, json-string>>)` lines."""
        prefix = '<<"%s", ' % tag
        with open(self.out_path, "r", errors="replace") as f:
            for line in f:
                if line.startswith(prefix):
                    lit = line[len(prefix):].rstrip()
                    if lit.endswith(">>"):
                        lit = lit[:-2]
                    try:
                        yield json.loads(json.loads(lit))
                    except Exception as e:  # pragma: no cover
                        raise ToolError(f"cannot decode TLC line: {line[:200]!r}: {e}")


_ACT_RE = re.compile(r"^<(\w+) line \d+, col \d+ to line \d+, col \d+ of module (\w+)>: (\d+):(\d+)")


def run_tlc(module, cfg, name, workers=8, simulate=None, depth=None, seed=None,
            env=None, timeout=1800, heap="4g", stack="512m", deque=False,
            coverage=True, extra=None):
    """Runs TLC on spec/<module>.tla with spec/<cfg>. Output goes to work/tlc/<name>.out."""
    out_dir = workdir("tlc")
    meta = os.path.join(out_dir, name + ".meta")
    shutil.rmtree(meta, ignore_errors=True)
    out_path = os.path.join(out_dir, name + ".out")
    jopts = [f"-Xss{stack}", f"-Xmx{heap}", "-XX:+UseParallelGC"]
    if deque:
        jopts.append("-Dtlc2.tool.queue.IStateQueue=StateDeque")
    cmd = ["timeout", str(timeout), "java"] + jopts + [
        "-cp", f"{TLA_JAR}:{TLA_DEPS}", "tlc2.TLC",
        "-workers", str(workers), "-metadir", meta, "-cleanup", "-noGenerateSpecTE",
        "-config", cfg]
    if coverage:
        cmd += ["-coverage", "1"]
    if simulate is not None:
        cmd += ["-simulate", f"num={simulate}"]
    if depth is not None:
        cmd += ["-depth", str(depth)]
    if seed is not None:
        cmd += ["-seed", str(seed)]
    if extra:
        cmd += extra
    cmd.append(module + ".tla")
    e = dict(os.environ)
    e.pop("JAVA_TOOL_OPTIONS", None)
    if env:
        e.update(env)
    res = TlcResult()
    res.cmd = " ".join(cmd)
    res.out_path = out_path
    t0 = time.time()
    with open(out_path, "w") as f:
        p = subprocess.run(cmd, cwd=SPEC, env=e, stdout=f, stderr=subprocess.STDOUT)
    res.wall = time.time() - t0
    res.rc = p.returncode
    shutil.rmtree(meta, ignore_errors=True)
    # parse the tail / stats
    err_lines = []
    in_err = False
    with open(out_path, "r", errors="replace") as f:
        for line in f:
            if line.startswith("<<"):
                continue
            m = _ACT_RE.match(line)
            if m:
                res.coverage[m.group(1)] = (int(m.group(3)), int(m.group(4)))
                continue
            m = re.match(r"^(\d+) states generated, (\d+) distinct states found", line)
            if m:
                res.generated = int(m.group(1))
                res.distinct = int(m.group(2))
            m = re.match(r"^The depth of the complete state graph search is (\d+)", line)
            if m:
                res.depth = int(m.group(1))
            if line.startswith("Error:") or in_err:
                in_err = True
                if len(err_lines) < 60:
                    err_lines.append(line.rstrip())
            m = re.match(r"^Progress: (\d+) states checked", line)  # simulation
            if m:
                res.generated = max(res.generated, int(m.group(1)))
    if err_lines:
        res.error = "\n".join(err_lines)
    if res.rc == 124:
        raise ToolError(f"TLC timed out after {timeout}s: {name}")
    return res


def tlc_must_pass(res, what):
    if res.rc != 0 or res.error:
        raise ToolError(f"TLC failed on {what} (rc={res.rc}); see {res.out_path}\n{res.error or ''}")


# ---------------------------------------------------------------------------
# Harness execution with isolation

def run_cases(cases, name, timeout_ms=10000, workers=None, mem_mb=None):
    """Runs the cases (list of dicts) through vharness; returns results aligned by index.

    A native crash of the harness is attributed to the case that was running
    and reported as {"crash": ...}; the run continues after it."""
    if not cases:
        return []
    workers = workers or min(12, NCPU)
    d = workdir("cases", name)
    for fn in os.listdir(d):
        os.unlink(os.path.join(d, fn))
    n = len(cases)
    workers = max(1, min(workers, (n + 49) // 50 if not name.endswith("_retry") else workers))
    bounds = [(n * w // workers, n * (w + 1) // workers) for w in range(workers)]
    procs = []
    for w, (lo, hi) in enumerate(bounds):
        cf = os.path.join(d, f"c{w}.ndjson")
        with open(cf, "w") as f:
            for c in cases[lo:hi]:
                f.write(json.dumps(c, separators=(",", ":")))
                f.write("\n")
        procs.append({"w": w, "lo": lo, "hi": hi, "cf": cf,
                      "of": os.path.join(d, f"o{w}.ndjson"), "start": 0, "p": None,
                      "extra": []})

    def limit():
        import resource
        resource.setrlimit(resource.RLIMIT_AS, (mem_mb * 1024 * 1024, mem_mb * 1024 * 1024))

    def launch(pr):
        pr["p"] = subprocess.Popen(
            [HARNESS_BIN, "exec", pr["cf"], pr["of"], "--start", str(pr["start"]),
             "--timeout-ms", str(timeout_ms)],
            stdout=subprocess.DEVNULL, stderr=subprocess.PIPE,
            preexec_fn=limit if mem_mb else None)

    for pr in procs:
        launch(pr)
    pending = list(procs)
    while pending:
        for pr in list(pending):
            try:
                _, err = pr["p"].communicate(timeout=0.2)
            except subprocess.TimeoutExpired:
                continue
            rc = pr["p"].returncode
            if rc == 0:
                pending.remove(pr)
                continue
            # find the last case that has a result line
            last = pr["start"] - 1
            if os.path.exists(pr["of"]):
                with open(pr["of"]) as f:
                    for line in f:
                        try:
                            last = max(last, json.loads(line)["i"])
                        except Exception:
                            pass
            cnt = pr["hi"] - pr["lo"]
            if rc == 3:
                nxt = last + 1          # timeout line was written for `last`
            else:
                crashed = last + 1
                if crashed >= cnt:
                    pending.remove(pr)
                    continue
                tail = (err or b"").decode("utf-8", "replace")[-600:]
                pr["extra"].append({"i": crashed, "crash": f"rc={rc}", "stderr": tail})
                nxt = crashed + 1
            if nxt >= cnt:
                pending.remove(pr)
                continue
            pr["start"] = nxt
            launch(pr)
    results = [None] * n
    for pr in procs:
        if os.path.exists(pr["of"]):
            with open(pr["of"]) as f:
                for line in f:
                    line = line.strip()
                    if not line:
                        continue
                    r = json.loads(line)
                    results[pr["lo"] + r["i"]] = r
        for r in pr["extra"]:
            results[pr["lo"] + r["i"]] = r
    # A time-out under a loaded machine is not evidence about the code: run every timed-out
    # case once more, alone, with a six times longer limit; only a second time-out stands.
    again = [i for i, r in enumerate(results) if r is not None and "timeout" in r]
    if again and not name.endswith("_retry"):
        # retry at most a handful; if every one of them times out again, the rest stand as they are
        first = again[:4]
        redo = run_cases([cases[i] for i in first], name + "_retry", timeout_ms=timeout_ms * 6,
                         workers=min(4, len(first)), mem_mb=mem_mb)
        for i, r in zip(first, redo):
            r["retried"] = True
            results[i] = r
        rest = again[4:]
        if rest and not all("timeout" in r for r in redo):
            redo = run_cases([cases[i] for i in rest], name + "_retry", timeout_ms=timeout_ms * 6,
                             workers=min(4, len(rest)), mem_mb=mem_mb)
            for i, r in zip(rest, redo):
                r["retried"] = True
                results[i] = r
    for i, r in enumerate(results):
        if r is None:
            raise ToolError(f"harness produced no result for case {i} of {name}")
        if "tool_error" in r:
            raise ToolError(f"harness tool error on case {i} of {name}: {r['tool_error']}")
    return results


def is_crash(r):
    """A panic, abort or timeout: never an acceptable outcome."""
    return any(k in r for k in ("panic", "crash", "timeout"))


def crash_desc(r):
    if "panic" in r:
        return "panic: " + str(r["panic"])[:300]
    if "crash" in r:
        return "crash: " + str(r["crash"]) + " " + str(r.get("stderr", ""))[-200:]
    if "timeout" in r:
        return "timeout"
    return ""


# ---------------------------------------------------------------------------
# Findings, violations, evidence

class Findings:
    def __init__(self):
        path = os.path.join(ROOT, "known_findings.json")
        self.entries = []
        if os.path.exists(path):
            with open(path) as f:
                self.entries = json.load(f).get("findings", [])

    def match(self, prop, sig):
        """sig: dict of strings. Returns the id of a listed *known* finding or None."""
        for e in self.entries:
            if e.get("status") != "known":
                continue
            if prop not in e.get("properties", [e.get("property")]):
                continue
            ok = True
            for k, rx in e.get("match", {}).items():
                v = sig.get(k)
                if v is None or not re.search(rx, str(v), re.S):
                    ok = False
                    break
            if ok:
                return e
        return None


class Check:
    """Collects what one run of one property check did; writes evidence; decides exit."""

    def __init__(self, prop, tier, seed, level="model_checking"):
        self.prop = prop
        self.tier = tier
        self.seed = seed
        self.level = level
        self.t0 = time.time()
        self.states = 0
        self.transitions = 0
        self.traces_validated = 0
        self.evaluations = 0
        self.nontrivial = set()
        self.samples = []
        self.outside = 0
        self.violations = []      # (sig, what, replay payload)
        self.known = {}           # finding id -> (entry, count, example)
        self.assumptions = []
        self.extra = {}
        self.tlc_runs = []
        self.findings = Findings()
        self.exhaustive = None
        self.rule = ""

    # -- accounting ---------------------------------------------------------
    def add_tlc(self, res, label):
        self.states += res.distinct if res.distinct else res.generated
        self.transitions += res.generated
        self.tlc_runs.append({
            "label": label, "distinct": res.distinct, "generated": res.generated,
            "depth": res.depth, "wall_s": round(res.wall, 2),
            "actions": {k: {"distinct": v[0], "generated": v[1]} for k, v in res.coverage.items()},
        })

    def sample(self, s, limit=6):
        if len(self.samples) < limit:
            self.samples.append(s)

    def count(self, key=None, nontrivial=False):
        self.evaluations += 1
        if nontrivial and key is not None:
            if len(self.nontrivial) < 5_000_000:
                self.nontrivial.add(hashlib.blake2b(
                    key.encode() if isinstance(key, str) else json.dumps(key, sort_keys=True).encode(),
                    digest_size=8).digest())

    # -- reporting ----------------------------------------------------------
    def disagree(self, sig, what, payload):
        """Record a disagreement between implementation and specification."""
        e = self.findings.match(self.prop, sig)
        if e is not None:
            k = e["id"]
            if k not in self.known:
                self.known[k] = [e, 0, what]
            self.known[k][1] += 1
            return
        self.violations.append((sig, what, payload))

    def finish(self):
        wall = time.time() - self.t0
        for k, (e, n, what) in sorted(self.known.items()):
            one = " ".join((f"{e.get('description','')} e.g. {what[:300]}").split())
            print(f"KNOWN-FINDING: property={self.prop} id={k} occurrences={n} {one}")
        rc = 0
        shown = 0
        seen = set()
        rdir = os.path.join(ROOT, "replays", self.prop)
        for sig, what, payload in self.violations:
            h = hashlib.sha1(json.dumps([sig, payload], sort_keys=True, default=str).encode()).hexdigest()[:12]
            if h in seen:
                continue
            seen.add(h)
            rc = 1
            if shown < 25:
                os.makedirs(rdir, exist_ok=True)
                path = os.path.join(rdir, h + ".json")
                with open(path, "w") as f:
                    json.dump({"property": self.prop, "sig": sig, "what": what, "case": payload},
                              f, indent=1, default=str)
                print(f"VIOLATION property={self.prop} replay={path}")
                print("  " + " ".join(what[:600].split()))
                shown += 1
        if len(seen) > shown:
            print(f"  ... and {len(seen)-shown} more distinct violations")
        cov = {
            "states": max(1, self.states),
            "transitions": max(1, self.transitions),
            "traces_validated_against_impl": self.traces_validated,
            "samples": self.samples if self.samples else ["<none>"],
            "evaluations": max(1, self.evaluations),
            "distinct_nontrivial": len(self.nontrivial),
            "rule": self.rule,
            "outside_domain": self.outside,
            "tlc_runs": self.tlc_runs,
            "known_findings_hit": {k: v[1] for k, v in self.known.items()},
        }
        if self.exhaustive is not None:
            cov["exhaustive"] = self.exhaustive
        cov.update(self.extra)
        ev = {
            "property_id": self.prop,
            "tier": self.tier,
            "seed": self.seed,
            "level": self.level,
            "coverage": cov,
            "assumptions": self.assumptions,
            "wall_s": round(wall, 2),
            "violations": len(seen),
        }
        os.makedirs(os.path.join(ROOT, "evidence"), exist_ok=True)
        with open(os.path.join(ROOT, "evidence", self.prop + ".json"), "w") as f:
            json.dump(ev, f, indent=1, default=str)
        if self.tier == "thorough":
            # the last thorough run is also kept next to the (quick or thorough) latest one
            os.makedirs(os.path.join(ROOT, "evidence", "thorough"), exist_ok=True)
            with open(os.path.join(ROOT, "evidence", "thorough", self.prop + ".json"), "w") as f:
                json.dump(ev, f, indent=1, default=str)
        log(f"[{self.prop}] tier={self.tier} evaluations={self.evaluations} "
            f"nontrivial={len(self.nontrivial)} states={self.states} violations={len(seen)} "
            f"known={sum(v[1] for v in self.known.values())} wall={wall:.1f}s")
        return rc


def rng(seed, salt=""):
    import random
    return random.Random(f"{seed}:{salt}")
